"""Plain-library demonstration of known finding R5-vector-trace-out-sums-amplitudes/C17 (run: cd /repo && /venv/bin/python <this file>; exits non-zero while the defect is present)."""
import jax.numpy as jnp, numpy as np
from photon_weave.state.envelope import Envelope
from photon_weave.state.composite_envelope import CompositeEnvelope
e0, e1 = Envelope(), Envelope()
e0.fock.dimensions = 4
e0.fock.expand(); e0.polarization.expand()
e0.combine()
# (|0,H> + |2,H> - |2,V>)/sqrt3, tensor order (fock, pol): half... 2/3 of the population sits at level 2
v = np.zeros((8, 1), complex); v[0] = 1; v[2 * 2 + 0] = 1; v[2 * 2 + 1] = -1; v /= np.sqrt(3)
e0.state = jnp.array(v)
ce = CompositeEnvelope(e0, e1)
ce.combine(e0.fock, e1.polarization)
r = ce.resize_fock(2, e0.fock)
ps = ce.states[0]
print("resize(2) returned", r, "dimension now", e0.fock.dimensions, "norm of stored vector", float(jnp.linalg.norm(ps.state)))
assert not (r is True and float(jnp.linalg.norm(ps.state)) < 0.99), "shrink below an occupied level was accepted and removed population"
