#!/bin/sh
# Offline setup: everything needed is already in /venv except (possibly) hypothesis, which is
# installed from the local wheelhouse when missing. Creates the (optional) JAX compile cache dir.
set -e
cd "$(dirname "$0")"
if ! /venv/bin/python -c "import hypothesis" 2>/dev/null; then
  /venv/bin/pip install --no-index --find-links /opt/veriftools/wheels hypothesis
fi
/venv/bin/python -c "import hypothesis, numpy, scipy, jax; print('hypothesis', hypothesis.__version__, 'jax', jax.__version__)"
mkdir -p .cache/jax evidence replays
echo setup ok
