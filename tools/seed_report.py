#!/venv/bin/python
import json, glob, os, sys
rows=[]
for f in sorted(glob.glob('/dev/shm/seedlogs/C*.log')):
    t=open(f).read()
    name=os.path.basename(f)[:-4]
    try:
        d=json.loads(t[t.index('{\n "name"'):])
    except Exception:
        rows.append((name,'?', 'unparsed: '+t[-200:].replace('\n',' '))); continue
    ok = d['confirmed']
    checks=' '.join(f"{k}:{v.split(' ')[0]}" for k,v in d['checks'].items())
    rows.append((name, 'confirmed' if ok else f"NOT-CONFIRMED(demo {d['demo_pristine_rc']}/{d['demo_patched_rc']} tests {d['stable_tests_pass_with_patch']})", checks))
for r in rows: print(*r)
