#!/bin/bash
# Sensitivity experiment: revert each 'fix:' commit of /repo in a scratch worktree and run the checks of the
# properties it repaired. Output: one block per commit in $1 (default /dev/shm/revert_sweep.log).
LOG=${1:-/dev/shm/revert_sweep.log}
cd "$(dirname "$0")/.."
: > $LOG
while read -r commit props; do
  [ -z "$commit" ] && continue
  ( echo "== $commit $(git -C /repo log -1 --format=%s $commit)"; tools/mutant_run.py --revert $commit --props $props --save regressions 2>&1 | grep -v Warn ) >> $LOG.$commit 2>&1 &
  while [ $(jobs -r | wc -l) -ge 3 ]; do sleep 5; done
done <<'LIST'
d713774 C19
0b6c568 C01,C04,C08
9e539b9 C02,C06,C09
79612c3 C01,C07
01369da C01,C07
8ba5466 C05,C07
44b1d7f C02,C10
a94a800 C10,C01
cc460ea C01,C02
cb87cac C17
b0a160b C10
6065e99 C01,C07
b24fc62 C10
1b8cd1f C10,C01
f43dba6 C02
763af53 C06
87f7115 C06
ecb863c C06
f0f904f C06,C09
e18a9a8 C08,C06
d23c8ed C02
59e15d8 C04
a1bdee4 C05,C04
58d68d2 C04,C05
541ed3f C05
58f853e C05
2f99e17 C13,C02
32c726d C09
47ef29f C09
83d932e C09
057c92e C09
1cd0dc5 C09
ee9d08d C09
c0be9da C10,C17
f1be521 C10
0ddebc5 C13
0ced36c C15
623fd04 C17
f36518a C17
3659fa4 C17
2d7655d C18
LIST
wait
cat $LOG.* > $LOG; rm -f $LOG.*
echo DONE >> $LOG
