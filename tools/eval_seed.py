#!/venv/bin/python
"""Evaluate one seeded change produced by a sub-agent: confirm it (demo passes on the pristine tree, fails with the
patch, stable baseline tests still pass with the patch), run the named checks against it, and file it under
/verif/seeded/<name>/ (patch.diff, demo.py, meta.json).
usage: tools/eval_seed.py <src_dir> <name> <props>     e.g. /tmp/seed_out/C01/change1 C01-1 C01,C07"""
import json, os, shutil, subprocess, sys, tempfile, time
V = os.path.dirname(os.path.dirname(os.path.abspath(__file__)))
src, name, props = sys.argv[1], sys.argv[2], sys.argv[3]
patch = os.path.join(src, "patch.diff"); demo = os.path.join(src, "demo.py")
meta = json.load(open(os.path.join(src, "meta.json"))) if os.path.exists(os.path.join(src, "meta.json")) else {}
wt = tempfile.mkdtemp(prefix="pwseed.", dir="/dev/shm"); os.rmdir(wt)
out = {"name": name}
def run_demo():
    env = dict(os.environ, PYTHONPATH=wt, JAX_PLATFORMS="cpu")
    r = subprocess.run(["/venv/bin/python", demo], cwd=wt, env=env, capture_output=True, text=True, timeout=1800)
    return r.returncode, (r.stdout + r.stderr)[-300:]
try:
    subprocess.run(["git", "-C", "/repo", "worktree", "add", "-q", "--detach", wt, "HEAD"], check=True)
    rc0, o0 = run_demo()
    r = subprocess.run(["git", "-C", wt, "apply", patch], capture_output=True, text=True)
    if r.returncode != 0:
        print(name, "PATCH DOES NOT APPLY", r.stderr[-200:]); sys.exit(3)
    rc1, o1 = run_demo()
    out["demo_pristine_rc"], out["demo_patched_rc"] = rc0, rc1
    t = subprocess.run([os.path.join(V, "tools", "run_baseline.py"), wt], capture_output=True, text=True)
    out["stable_tests_pass_with_patch"] = (t.returncode == 0)
    out["tests_tail"] = t.stdout.strip().splitlines()[-1] if t.stdout.strip() else ""
finally:
    subprocess.run(["git", "-C", "/repo", "worktree", "remove", "--force", wt], capture_output=True)
    shutil.rmtree(wt, ignore_errors=True)
confirmed = out["demo_pristine_rc"] == 0 and out["demo_patched_rc"] != 0 and out["stable_tests_pass_with_patch"]
out["confirmed"] = confirmed
r = subprocess.run([os.path.join(V, "tools", "mutant_run.py"), "--patch", patch, "--props", props], capture_output=True, text=True)
lines = [l for l in r.stdout.splitlines() if l[:3] in [p[:3] for p in props.split(",")] or ": " in l[:6]]
out["checks"] = {l.split(":")[0]: l.split(":", 1)[1].strip()[:260] for l in r.stdout.splitlines() if l[:1] == "C" and ":" in l[:5]}
d = os.path.join(V, "seeded", name)
if confirmed:
    os.makedirs(d, exist_ok=True)
    shutil.copy(patch, os.path.join(d, "patch.diff")); shutil.copy(demo, os.path.join(d, "demo.py"))
    json.dump(dict(breaks=meta.get("property", name.split("-")[0]), summary=meta.get("summary"), needs=meta.get("needs"), files=meta.get("files"),
                   confirmed=dict(demo_exit_on_unchanged_tree=out["demo_pristine_rc"], demo_exit_with_patch=out["demo_patched_rc"],
                                  stable_baseline_tests_pass_with_patch=True, how="tools/eval_seed.py: scratch worktree of /repo HEAD, demo run before/after `git apply`, tools/run_baseline.py on the patched worktree"),
                   checks_run=out["checks"], agent_notes=meta.get("ran")), open(os.path.join(d, "meta.json"), "w"), indent=1)
print(json.dumps(out, indent=1))
