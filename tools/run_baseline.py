#!/venv/bin/python
"""Run the repository's pinned test command (guard off) and compare with BASELINE.json stable_pass.
usage: tools/run_baseline.py [repo_dir]   -> exit 0 iff every stable_pass test passed"""
import json, os, subprocess, sys, tempfile, xml.etree.ElementTree as ET
repo = sys.argv[1] if len(sys.argv) > 1 else "/repo"
base = json.load(open("/root/.vp/BASELINE.json"))
out = tempfile.mktemp(suffix=".xml", dir="/dev/shm")
env = dict(os.environ); env.pop("PHOTON_WEAVE_VERIF", None); env["PYTHONPATH"] = repo
cmd = ["/venv/bin/python", "-m", "pytest", "-ra", "-q", "-p", "no:cacheprovider", "--timeout=900",
       "--continue-on-collection-errors", f"--junitxml={out}"] + sys.argv[2:]
r = subprocess.run(cmd, cwd=repo, env=env, capture_output=True, text=True)
passed = set()
for tc in ET.parse(out).getroot().iter("testcase"):
    if not any(c.tag in ("failure", "error", "skipped") for c in tc):
        passed.add(f"{tc.get('classname')}::{tc.get('name')}")
os.remove(out)
missing = [t for t in base["stable_pass"] if t not in passed]
print(r.stdout[-600:])
print(f"stable_pass={len(base['stable_pass'])} passed_now={len(passed)} missing={len(missing)}")
for t in missing: print("  MISSING", t)
newly = [t for t in passed if t not in base["stable_pass"]]
for t in newly: print("  newly passing", t)
sys.exit(1 if missing else 0)
