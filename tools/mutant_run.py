#!/venv/bin/python
"""Run checks against a modified copy of the repository (never /repo itself).

usage: tools/mutant_run.py --patch FILE | --revert COMMIT   [--props C01,C05] [--examples N] [--keep]
Creates a scratch git worktree of /repo's HEAD under /dev/shm, applies the change, runs the named
checks with PW_REPO pointing at it and PW_VERIF_OUT at a scratch output directory, prints one
line per check (CAUGHT / missed / error) and removes the worktree again.
"""
import argparse, json, os, shutil, subprocess, sys, tempfile, time
V = os.path.dirname(os.path.dirname(os.path.abspath(__file__)))

def main():
    ap = argparse.ArgumentParser()
    ap.add_argument("--patch"); ap.add_argument("--revert"); ap.add_argument("--props", default="")
    ap.add_argument("--examples", type=int, default=None); ap.add_argument("--seed", default="1")
    ap.add_argument("--save", default=None, help="directory to copy the first replay of each catching check to")
    ap.add_argument("--run-tests", action="store_true")
    a = ap.parse_args()
    wt = tempfile.mkdtemp(prefix="pwmut.", dir="/dev/shm")
    out = tempfile.mkdtemp(prefix="pwout.", dir="/dev/shm")
    os.rmdir(wt)
    res = {}
    try:
        subprocess.run(["git", "-C", "/repo", "worktree", "add", "-q", "--detach", wt, "HEAD"], check=True)
        if a.patch:
            r = subprocess.run(["git", "-C", wt, "apply", os.path.abspath(a.patch)], capture_output=True, text=True)
        else:
            r = subprocess.run(["git", "-C", wt, "revert", "-n", a.revert], capture_output=True, text=True)
        if r.returncode != 0:
            print("APPLY-FAILED", (r.stderr or r.stdout)[-300:].replace("\n", " "))
            return 3
        if a.run_tests:
            t = subprocess.run([os.path.join(V, "tools", "run_baseline.py"), wt], capture_output=True, text=True)
            print("baseline-tests:", t.stdout.strip().splitlines()[-1] if t.returncode == 0 else "STABLE TESTS FAIL: " + t.stdout[-400:])
        env = dict(os.environ, PW_REPO=wt, PW_VERIF_OUT=out, VERIF_SEED=a.seed)
        for prop in [p for p in a.props.split(",") if p]:
            cmd = [os.path.join(V, "check"), prop] + (["--examples", str(a.examples)] if a.examples else [])
            t0 = time.time()
            r = subprocess.run(cmd, cwd=V, env=env, capture_output=True, text=True)
            viol = [l for l in r.stdout.splitlines() if l.startswith("VIOLATION")]
            msg = [l.strip() for l in r.stdout.splitlines() if l.startswith("  [")]
            status = "CAUGHT" if r.returncode == 1 and viol else ("missed" if r.returncode == 0 else "error")
            print(f"{prop}: {status} ({time.time() - t0:.0f}s) {msg[0][:200] if msg else ''}")
            if status == "error":
                print(r.stdout[-1500:], r.stderr[-500:])
            res[prop] = status
            if status == "CAUGHT" and a.save:
                os.makedirs(os.path.join(a.save, prop), exist_ok=True)
                rp = viol[0].split("replay=")[1].strip()
                tag = (a.revert or os.path.basename(os.path.dirname(os.path.abspath(a.patch))))
                shutil.copy(os.path.join(out, rp), os.path.join(a.save, prop, f"fix-{tag}.json"))
    finally:
        subprocess.run(["git", "-C", "/repo", "worktree", "remove", "--force", wt], capture_output=True)
        shutil.rmtree(wt, ignore_errors=True)
        shutil.rmtree(out, ignore_errors=True)
    return 0 if all(v == "CAUGHT" for v in res.values()) and res else 1

sys.exit(main())
