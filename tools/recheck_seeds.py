#!/venv/bin/python
"""Re-run, with the current checks, every seeded change against a scratch worktree of /repo HEAD and record the outcome
in seeded/<name>/meta.json under "checks_final". usage: tools/recheck_seeds.py [name ...]"""
import glob, json, os, subprocess, sys
V = os.path.dirname(os.path.dirname(os.path.abspath(__file__)))
names = sys.argv[1:] or [os.path.basename(d) for d in sorted(glob.glob(os.path.join(V, "seeded", "C*-*")))]
for n in names:
    forced = None
    if ":" in n:
        n, forced = n.split(":")
    d = os.path.join(V, "seeded", n)
    m = json.load(open(os.path.join(d, "meta.json")))
    own = n.split("-")[0]
    prev = dict(m.get("checks_run", {}))
    prev.update({k: v for k, v in m.get("checks_final", {}).items() if k.startswith("C")})
    # the property the change is filed under, plus (if that one stayed quiet before) one check that caught it
    props = [own] + ([p for p, v in prev.items() if p != own and str(v).startswith("CAUGHT")][:1] if not str(prev.get(own, "")).startswith("CAUGHT") else [])
    if forced:
        props = forced.split(",")
    r = subprocess.run([os.path.join(V, "tools", "mutant_run.py"), "--patch", os.path.join(d, "patch.diff"), "--props", ",".join(props)], capture_output=True, text=True)
    res = {}
    for l in r.stdout.splitlines():
        if l[:1] == "C" and ":" in l[:5]:
            res[l.split(":")[0]] = l.split(":", 1)[1].strip()[:200]
        if l.startswith("APPLY-FAILED"):
            res["apply"] = "patch no longer applies to /repo HEAD (the repository was repaired at that place after the change was written)"
    if forced and isinstance(m.get("checks_final"), dict):
        merged = dict(m["checks_final"]); merged.update(res); res = merged
    m["checks_final"] = res
    json.dump(m, open(os.path.join(d, "meta.json"), "w"), indent=1)
    print(n, {k: v.split(" ")[0] for k, v in res.items()}, flush=True)
