#!/venv/bin/python
"""Regenerates /verif/MANIFEST.json from the table below (kept in one place so it stays valid)."""
import json, os
V = os.path.dirname(os.path.dirname(os.path.abspath(__file__)))
BASELINE_OFF = ("cd /repo && env -u PHOTON_WEAVE_VERIF /venv/bin/python -m pytest -ra -q -p no:cacheprovider "
                "--timeout=900 --continue-on-collection-errors")

CHECKS = {
 "C12": dict(category="exploration", design_ref="DESIGN.md 3/C12",
   technique="property-based testing (Hypothesis): differential against independent numpy/scipy definitions + algebraic identities",
   text="Generated parameters/cutoffs for every predefined operator, compared with independent textbook definitions, closed forms (coherent state, squeezed vacuum, SU(2) action) and identities (unitarity, additivity, commutator); sampling, not proof: a convention error confined to a measure-zero parameter set would be missed.",
   note="trusts numpy/scipy (expm) and the textbook conventions listed in the evidence assumptions"),
 "C16": dict(category="exploration", design_ref="DESIGN.md 3/C16",
   technique="property-based testing (Hypothesis typed grammar): differential against an independent numpy evaluator + bit-for-bit side-effect check",
   text="Typed expression trees to depth 4 over all seven commands with python/numpy/jax/context leaves are evaluated by the interpreter and by an independent evaluator; caller-owned arrays and context outputs are compared bit-for-bit afterwards; malformed heads must raise.",
   note="trusts numpy/scipy; divisors bounded away from zero and expm arguments bounded"),
 "C19": dict(category="exploration", design_ref="DESIGN.md 3/C19",
   technique="property-based testing (Hypothesis): closed-form oracle + metamorphic symmetry over 16 decades of pulse width",
   text="Overlap integral compared with the Gaussian closed form, identity, exchange symmetry and range for widths from 1 fs to 10 s, offsets and delays up to 40 widths.",
   note="only the Gaussian temporal profile exists in the library; closed form assumes it"),
}

MACHINE_NOTE = "trusts the harness's own reference simulator (numpy/scipy; two independent operator embeddings cross-checked at start-up) and the reconstruction of the joint density matrix from object attributes; states are seeded into blocks by assigning correctly shaped arrays after the layout was built through public calls; worlds <= 3 envelopes + 2 custom states, Fock cut-offs 2-4 before the call; after a step that fails another property's oracle the program continues with the ideal result of that call as reference state (DESIGN.md 12)"
def machine(design, text, technique):
    return dict(category="exploration", design_ref=design, technique=technique, text=text, note=MACHINE_NOTE)
CHECKS.update({
 "C01": machine("DESIGN.md 3/C01", "Generated worlds x storage layouts x levels x entry points x states (entangled, mixed, nearly pure, amplitude-cancelling) x all single-subsystem operation types, alone or after generated histories (measurements, channels, structural calls, life cycles of one envelope, non-unitary user operators); each call compared step-wise with (OxI)rho(OxI)^+ from the reference model. Sampling over a large finite cell grid times a continuum; no exhaustiveness claim.",
   "property-based testing (Hypothesis program generation): differential against an independent dense reference simulator, per step"),
 "C02": machine("DESIGN.md 3/C02", "Generated programs of structural calls (combine/reorder/expand/contract/merge) and trace_out at three entry points; invariant 'joint state unchanged' after every structural call and differential check of the returned reduced state against the reference partial trace.",
   "property-based testing (Hypothesis program generation): state-invariance oracle + differential partial trace"),
 "C03": machine("DESIGN.md 3/C03", "Generated composite operations (CX, CZ, SWAP, CSWAP, beam splitter, typed user expressions with all-different factors) on every ordered operand tuple over operands spread across own states, envelopes and product spaces; differential against the reference embedding with factor k on operand k.",
   "property-based testing (Hypothesis program generation): differential against reference operator embedding in operand order"),
 "C04": machine("DESIGN.md 3/C04", "Sampler interception: every probability vector handed to jax.random.choice is recorded and a generated script forces a branch; the probability of the path must equal the Born probability of the reported outcome dictionary for generated entangled/mixed states at every layout, entry point and flag combination.",
   "property-based testing (Hypothesis) with intercepted sampler and forced outcome branches: path probability vs Born rule of the reference model"),
 "C05": machine("DESIGN.md 3/C05", "For each forced outcome branch the post-measurement joint state, the outcome dictionary (by object identity), measured flags and the partition are compared with the reference projection; generated continuations run on the survivors under their own oracles.",
   "property-based testing (Hypothesis program generation) with forced measurement branches: differential collapse + retirement predicates"),
 "C06": machine("DESIGN.md 3/C06", "Dilation-generated CPTP sets (1-4 operators) on 1-2 targets through all entry points and layouts; differential against sum K rho K^+, unit trace, and the rule that a vector/label report requires a pure result.",
   "property-based testing (Hypothesis program generation): differential against the reference channel"),
})

CHECKS.update({
 "C07": machine("DESIGN.md 3/C07", "Histories of 3-8 (thorough 3-14) generated public calls of every kind; after every successful call every block reachable from the user's handles must be a well-formed normalised state of its claimed form (validity predicate).",
   "property-based testing (Hypothesis program generation, history-based): validity invariant over the object graph after every step"),
 "C08": machine("DESIGN.md 3/C08", "Direct expand/contract calls on complex/mixed states in every container (state-invariance + level rules) and metamorphic twin programs executed with automatic contraction on / off / toggled: joint state and every sampler probability vector must agree step by step.",
   "property-based testing (Hypothesis): state-invariance oracle + metamorphic twin programs under both contraction settings"),
 "C09": machine("DESIGN.md 3/C09", "Dilation-generated complete operator sets (projective and not) at all entry points/layouts with the sampler intercepted: full probability vector vs Tr(M rho M^+), returned index, fate of subsystems, post-measurement state (any unravelling of the instrument accepted for destroyed subsystems).",
   "property-based testing (Hypothesis program generation) with intercepted sampler: differential against the reference instrument"),
 "C10": machine("DESIGN.md 3/C10", "Resize requests 0..7 at all entry points/layouts with support at the edge (validity predicate over return value, dimension, state) and displacement/squeezing/ladder/phase operations with complex parameters compared with the ideal action at a large cut-off.",
   "property-based testing (Hypothesis program generation): validity predicate for resize + differential against a large-cut-off reference"),
 "C11": machine("DESIGN.md 3/C11", "Generated interferometer meshes of beam splitters and phase shifters over 2-3 modes in every layout: total-photon-number distribution invariant and SU(2) reference per step; Mach-Zehnder example program with generated phase against the cos^2/sin^2 closed form (state and intercepted detection probabilities).",
   "property-based testing (Hypothesis program generation): conservation invariant + differential SU(2) reference + closed-form Mach-Zehnder oracle"),
 "C13": machine("DESIGN.md 3/C13", "Histories with merges of composite envelopes (incl. 'merge storms' of re-wraps, chains and three-way merges over several independent composites), combines, reorders, operations, channels and measurements; bookkeeping predicate (index names the place, back pointers resolve, no duplicate/empty product space) after every successful call.",
   "property-based testing (Hypothesis program generation, history-based): bookkeeping invariant over registries, containers and indices"),
 "C14": machine("DESIGN.md 3/C14", "Metamorphic twins of programs with unforced measurements: re-seed and re-run, run after unrelated activity, run in a fresh interpreter; outcomes, sampler keys and final states must coincide; keys pairwise distinct; coarse frequency bound on two successive draws over 256 seeds.",
   "property-based testing (Hypothesis): metamorphic twin runs + key-distinctness invariant via sampler interception"),
 "C15": machine("DESIGN.md 3/C15", "Generated schedules of construct / failed-construct / apply events over 2-3 operation slots (mostly of the same type with different parameters; sometimes sent to targets of another size); twin with long-lived Operation objects vs twin with freshly constructed equal operations must agree on accept/reject and joint state after every apply.",
   "property-based testing (Hypothesis): metamorphic twin schedules (re-used vs fresh Operation objects)"),
 "C18": machine("DESIGN.md 3/C18", "Metamorphic twins: the same program on a world whose subsystems hold equal values and on one where they are distinct; a step oracle failing only in the equal-valued world, or differing addressing signatures, is a confusion of subsystems.",
   "property-based testing (Hypothesis): metamorphic twin worlds (equal-valued vs distinct-valued subsystems) under identity-based step oracles"),
 "C20": machine("DESIGN.md 3/C20", "Histories on multi-block worlds; before/after comparison of the block partition: blocks without addressed members must be bit-identical, no over-merge, single-subsystem actions never enlarge a product space.",
   "property-based testing (Hypothesis program generation, history-based): partition / bystander-bit-identity invariant"),
})
CHECKS["C17"] = dict(category="fault_enumeration", design_ref="DESIGN.md 3/C17",
   technique="property-based fault injection (Hypothesis): generated invalid requests inside generated programs, rejection + before/after snapshot equality",
   text="Twelve kinds of invalid request injected at generated points of generated programs through every entry point and layout; the call must raise (or return False) and the joint state, validity and bookkeeping predicates must be unchanged; valid continuation follows under its own oracles, and a continuation that fails while the same program without the refused request passes is attributed to the refused request; refused Operation constructions followed by re-use of an earlier Operation object are a generated scenario.",
   note=MACHINE_NOTE)

NOT_YET = {}

def main():
    props = [json.loads(l) for l in open(os.path.join(V, "properties.jsonl"))]
    checks, na = [], []
    for p in props:
        pid = p["id"]
        if pid in CHECKS:
            c = CHECKS[pid]
            checks.append(dict(
                property_id=pid,
                quick_cmd=f"./check {pid} --tier quick",
                thorough_cmd=f"./check {pid} --tier thorough",
                evidence_file=f"evidence/{pid}.json",
                replay_cmd_template=f"./check {pid} --replay {{path}}",
                engine="pw_verif",
                level_claimed=dict(category=c["category"], text=c["text"], design_ref=c["design_ref"]),
                level_note=c["note"],
                technique=c["technique"],
            ))
        else:
            na.append(dict(property_id=pid, reason=NOT_YET.get(pid, "check not built yet in this session (planned: see DESIGN.md section 3); nothing is claimed for it")))
    m = dict(
        version=1,
        setup_cmd="./setup.sh",
        hooks=dict(guard="PHOTON_WEAVE_VERIF", enable="no source hook is needed: checks import /repo's working tree directly (PYTHONPATH=/repo) and intercept jax.random.choice from the harness process",
                   baseline_off_cmd=BASELINE_OFF, source_commits=[], add_only=True),
        engines=[dict(name="pw_verif", path="pw_verif/", serves_properties=sorted(CHECKS),
                      kind_free_text="Hypothesis-driven property-based testing with explicit oracles (independent dense reference simulator, closed forms, metamorphic twins, invariants over histories); sharded over 16 processes; replay files are shrunk JSON cases")],
        checks=checks,
        not_applicable=na,
        notes="Exit codes: 0 held (possibly with KNOWN-FINDING lines), 1 violation, 2 harness error. known_findings.json lists genuine defects (open = still present, fixed = repaired by a 'fix:' commit in /repo).",
    )
    with open(os.path.join(V, "MANIFEST.json"), "w") as f:
        json.dump(m, f, indent=1)
    print("claimed", len(checks), "not_applicable", len(na))
main()
