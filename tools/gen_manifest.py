#!/venv/bin/python
"""Regenerates /verif/MANIFEST.json from the table below (kept in one place so it stays valid)."""
import json, os
V = os.path.dirname(os.path.dirname(os.path.abspath(__file__)))
BASELINE_OFF = ("cd /repo && env -u PHOTON_WEAVE_VERIF /venv/bin/python -m pytest -ra -q -p no:cacheprovider "
                "--timeout=900 --continue-on-collection-errors")

CHECKS = {
 "C12": dict(category="exploration", design_ref="DESIGN.md 3/C12",
   technique="property-based testing (Hypothesis): differential against independent numpy/scipy definitions + algebraic identities",
   text="Generated parameters/cutoffs for every predefined operator, compared with independent textbook definitions, closed forms (coherent state, squeezed vacuum, SU(2) action) and identities (unitarity, additivity, commutator); sampling, not proof: a convention error confined to a measure-zero parameter set would be missed.",
   note="trusts numpy/scipy (expm) and the textbook conventions listed in the evidence assumptions"),
 "C16": dict(category="exploration", design_ref="DESIGN.md 3/C16",
   technique="property-based testing (Hypothesis typed grammar): differential against an independent numpy evaluator + bit-for-bit side-effect check",
   text="Typed expression trees to depth 4 over all seven commands with python/numpy/jax/context leaves are evaluated by the interpreter and by an independent evaluator; caller-owned arrays and context outputs are compared bit-for-bit afterwards; malformed heads must raise.",
   note="trusts numpy/scipy; divisors bounded away from zero and expm arguments bounded"),
 "C19": dict(category="exploration", design_ref="DESIGN.md 3/C19",
   technique="property-based testing (Hypothesis): closed-form oracle + metamorphic symmetry over 16 decades of pulse width",
   text="Overlap integral compared with the Gaussian closed form, identity, exchange symmetry and range for widths from 1 fs to 10 s, offsets and delays up to 40 widths.",
   note="only the Gaussian temporal profile exists in the library; closed form assumes it"),
}
NOT_YET = {}

def main():
    props = [json.loads(l) for l in open(os.path.join(V, "properties.jsonl"))]
    checks, na = [], []
    for p in props:
        pid = p["id"]
        if pid in CHECKS:
            c = CHECKS[pid]
            checks.append(dict(
                property_id=pid,
                quick_cmd=f"./check {pid} --tier quick",
                thorough_cmd=f"./check {pid} --tier thorough",
                evidence_file=f"evidence/{pid}.json",
                replay_cmd_template=f"./check {pid} --replay {{path}}",
                engine="pw_verif",
                level_claimed=dict(category=c["category"], text=c["text"], design_ref=c["design_ref"]),
                level_note=c["note"],
                technique=c["technique"],
            ))
        else:
            na.append(dict(property_id=pid, reason=NOT_YET.get(pid, "check not built yet in this session (planned: see DESIGN.md section 3); nothing is claimed for it")))
    m = dict(
        version=1,
        setup_cmd="./setup.sh",
        hooks=dict(guard="PHOTON_WEAVE_VERIF", enable="no source hook is needed: checks import /repo's working tree directly (PYTHONPATH=/repo) and intercept jax.random.choice from the harness process",
                   baseline_off_cmd=BASELINE_OFF, source_commits=[], add_only=True),
        engines=[dict(name="pw_verif", path="pw_verif/", serves_properties=sorted(CHECKS),
                      kind_free_text="Hypothesis-driven property-based testing with explicit oracles (independent dense reference simulator, closed forms, metamorphic twins, invariants over histories); sharded over 16 processes; replay files are shrunk JSON cases")],
        checks=checks,
        not_applicable=na,
        notes="Exit codes: 0 held (possibly with KNOWN-FINDING lines), 1 violation, 2 harness error. known_findings.json lists genuine defects (open = still present, fixed = repaired by a 'fix:' commit in /repo).",
    )
    with open(os.path.join(V, "MANIFEST.json"), "w") as f:
        json.dump(m, f, indent=1)
    print("claimed", len(checks), "not_applicable", len(na))
main()
