"""
Interception of the library's only source of randomness: jax.random.choice is looked up through
the jax.random module at call time at every sampling site, so replacing the module attribute
(from the harness process only) records the probability vector and key of each draw and lets a
script force outcomes. Forcing never changes which code runs, only which index is returned.
"""
from __future__ import annotations

from typing import List, Optional

import numpy as np


class Sampler:
    def __init__(self):
        self.log: List[dict] = []
        self.script: Optional[List[Optional[int]]] = None
        self._orig = None
        self.forcer = None  # object with choose(k, p, n) -> index or None
        self.min_forced_p = 1e-12

    # -- installation ----------------------------------------------------------------------
    def install(self):
        import jax

        if self._orig is None:
            self._orig = jax.random.choice
            jax.random.choice = self  # type: ignore

    def uninstall(self):
        import jax

        if self._orig is not None:
            jax.random.choice = self._orig  # type: ignore
            self._orig = None

    def reset(self, script=None):
        self.log = []
        self.forcer = None
        self.script = list(script) if script is not None else None

    # -- the replacement -------------------------------------------------------------------
    def __call__(self, key, a, shape=(), replace=True, p=None, axis=0):
        import jax.numpy as jnp

        avals = np.asarray(a)
        if avals.ndim == 0:
            avals = np.arange(int(avals))
        pv = None if p is None else np.array(np.asarray(p), dtype=float).reshape(-1)
        k = len(self.log)
        forced = None
        if self.script is not None and k < len(self.script) and self.script[k] is not None:
            forced = int(self.script[k])
        elif self.forcer is not None:
            forced = self.forcer.choose(k, pv, len(avals))
        rec = dict(key=np.asarray(key).tolist(), p=None if pv is None else pv.copy(), n=len(avals), forced=forced is not None)
        if forced is not None:
            if forced >= len(avals):
                raise ScriptError(f"script forces index {forced} on a draw with {len(avals)} outcomes")
            idx = forced
        else:
            val = self._orig(key, a, shape, replace, p, axis)
            idx = int(np.nonzero(avals == np.asarray(val))[0][0])
        rec["chosen"] = idx
        self.log.append(rec)
        return jnp.asarray(avals[idx])


class ScriptError(Exception):
    pass


SAMPLER = Sampler()
