"""
Independent dense reference model (numpy/scipy only; shares no code with photon_weave).

States are density matrices over an ordered list of subsystems with dimensions `dims`.
Operators are embedded by reshaping (tensor contraction), never by generated index strings.
"""
from __future__ import annotations

import math
from typing import List, Sequence

import numpy as np
import scipy.linalg as sla

# ----------------------------------------------------------------------------------------
# textbook matrices
# ----------------------------------------------------------------------------------------
I2 = np.eye(2, dtype=complex)
X = np.array([[0, 1], [1, 0]], complex)
Y = np.array([[0, -1j], [1j, 0]], complex)
Z = np.array([[1, 0], [0, -1]], complex)
H = (X + Z) / math.sqrt(2)
S = np.diag([1, 1j]).astype(complex)
T = np.diag([1, np.exp(1j * math.pi / 4)]).astype(complex)
SX = 0.5 * np.array([[1 + 1j, 1 - 1j], [1 - 1j, 1 + 1j]])


def rot(axis: str, theta: float) -> np.ndarray:
    sig = {"X": X, "Y": Y, "Z": Z}[axis]
    return math.cos(theta / 2) * I2 - 1j * math.sin(theta / 2) * sig


def u3(phi, theta, omega):
    c, s = math.cos(theta / 2), math.sin(theta / 2)
    return np.array([[c, -np.exp(1j * omega) * s], [np.exp(1j * phi) * s, np.exp(1j * (phi + omega)) * c]])


def pol_gate(name: str, **kw) -> np.ndarray:
    if name in ("RX", "RY", "RZ"):
        return rot(name[1], kw["theta"])
    if name == "U3":
        return u3(kw["phi"], kw["theta"], kw["omega"])
    return {"I": I2, "X": X, "Y": Y, "Z": Z, "H": H, "S": S, "T": T, "SX": SX}[name].copy()


def destroy(d: int) -> np.ndarray:
    m = np.zeros((d, d), complex)
    for k in range(1, d):
        m[k - 1, k] = math.sqrt(k)
    return m


def create(d: int) -> np.ndarray:
    return destroy(d).conj().T


def phase_shift(d: int, phi: float) -> np.ndarray:
    return np.diag(np.exp(1j * np.arange(d) * phi))


def displace(d: int, alpha: complex) -> np.ndarray:
    a = destroy(d)
    return sla.expm(alpha * a.conj().T - np.conj(alpha) * a)


def squeeze(d: int, zeta: complex) -> np.ndarray:
    a = destroy(d)
    return sla.expm(0.5 * (np.conj(zeta) * (a @ a) - zeta * (a.conj().T @ a.conj().T)))


def beam_splitter(d1: int, d2: int, eta: float) -> np.ndarray:
    a = np.kron(destroy(d1), np.eye(d2))
    b = np.kron(np.eye(d1), destroy(d2))
    return sla.expm(1j * eta * (a.conj().T @ b + a @ b.conj().T))


def perm_gate(n: int, fn) -> np.ndarray:
    """gate on n qubits defined by its action on computational basis states:
    fn(bits) -> (bits', phase)"""
    m = np.zeros((2**n, 2**n), complex)
    for b in range(2**n):
        bits = [(b >> (n - 1 - i)) & 1 for i in range(n)]
        out, ph = fn(bits)
        ob = sum(v << (n - 1 - i) for i, v in enumerate(out))
        m[ob, b] = ph
    return m


CX = perm_gate(2, lambda b: ([b[0], b[1] ^ b[0]], 1))
CZ = perm_gate(2, lambda b: (b, -1 if b == [1, 1] else 1))
SWAP = perm_gate(2, lambda b: ([b[1], b[0]], 1))
CSWAP = perm_gate(3, lambda b: (([b[0], b[2], b[1]] if b[0] else b), 1))


# ----------------------------------------------------------------------------------------
# states
# ----------------------------------------------------------------------------------------
def basis_rho(d: int, n: int) -> np.ndarray:
    r = np.zeros((d, d), complex)
    r[n, n] = 1
    return r


def pure_rho(v) -> np.ndarray:
    v = np.asarray(v, complex).reshape(-1)
    return np.outer(v, v.conj())


def rand_pure(rng, d: int) -> np.ndarray:
    v = rng.normal(size=d) + 1j * rng.normal(size=d)
    return v / np.linalg.norm(v)


def rand_mixed(rng, d: int, rank: int) -> np.ndarray:
    rank = max(1, min(rank, d))
    g = rng.normal(size=(d, rank)) + 1j * rng.normal(size=(d, rank))
    r = g @ g.conj().T
    return r / np.trace(r).real


def rand_unitary(rng, d: int) -> np.ndarray:
    g = rng.normal(size=(d, d)) + 1j * rng.normal(size=(d, d))
    q, r = np.linalg.qr(g)
    ph = np.diag(r) / np.abs(np.diag(r))
    return q * ph


def rand_kraus(rng, d: int, n: int) -> List[np.ndarray]:
    """n Kraus operators on dimension d from a Haar isometry (sum K+K = I to 1e-15)"""
    u = rand_unitary(rng, d * n)
    iso = u[:, :d]  # (d*n, d) isometry
    return [iso[i * d:(i + 1) * d, :].copy() for i in range(n)]


# ----------------------------------------------------------------------------------------
# tensor plumbing
# ----------------------------------------------------------------------------------------
def _prod(xs) -> int:
    p = 1
    for x in xs:
        p *= int(x)
    return p


def apply_left(rho: np.ndarray, dims: Sequence[int], targets: Sequence[int], op: np.ndarray) -> np.ndarray:
    """(op on targets (in that order) x I) @ rho"""
    n = len(dims)
    D = _prod(dims)
    t = rho.reshape(list(dims) + [D])
    td = [dims[i] for i in targets]
    o = op.reshape(td + td)
    # contract o's input axes with t's target axes
    res = np.tensordot(o, t, axes=(list(range(len(td), 2 * len(td))), list(targets)))
    # res axes: [targets..., remaining original axes in order (non-targets), D]
    rest = [i for i in range(n) if i not in targets]
    cur = list(targets) + rest
    perm = [cur.index(i) for i in range(n)] + [n]
    res = np.transpose(res, perm)
    return res.reshape(D, D)


def apply_op(rho: np.ndarray, dims: Sequence[int], targets: Sequence[int], op: np.ndarray) -> np.ndarray:
    """(O x I) rho (O x I)^dagger with O's k-th factor on targets[k]"""
    left = apply_left(rho, dims, targets, op)
    return apply_left(left.conj().T, dims, targets, op).conj().T


def apply_kraus(rho, dims, targets, ks) -> np.ndarray:
    out = np.zeros_like(rho)
    for k in ks:
        out = out + apply_op(rho, dims, targets, k)
    return out


def embed(dims: Sequence[int], targets: Sequence[int], op: np.ndarray) -> np.ndarray:
    """second, independent embedding: explicit full matrix via a permutation of tensor factors"""
    n = len(dims)
    rest = [i for i in range(n) if i not in targets]
    order = list(targets) + rest
    d_rest = _prod(dims[i] for i in rest)
    big = np.kron(op, np.eye(d_rest))
    D = _prod(dims)
    t = big.reshape([dims[i] for i in order] * 2)
    inv = [order.index(i) for i in range(n)]
    t = np.transpose(t, inv + [n + i for i in inv])
    return t.reshape(D, D)


def ptrace(rho: np.ndarray, dims: Sequence[int], keep: Sequence[int]) -> np.ndarray:
    """reduced state of subsystems `keep`, tensor factors in the order of `keep`"""
    n = len(dims)
    t = rho.reshape(list(dims) * 2)
    drop = [i for i in range(n) if i not in keep]
    # trace out from the highest index down so axis numbers stay valid
    cur = list(range(n))
    for i in sorted(drop, reverse=True):
        pos = cur.index(i)
        t = np.trace(t, axis1=pos, axis2=pos + len(cur))
        cur.pop(pos)
    m = len(cur)
    perm = [cur.index(i) for i in keep]
    t = np.transpose(t, perm + [m + p for p in perm])
    d = _prod(dims[i] for i in keep)
    return t.reshape(d, d)


def permute(rho: np.ndarray, dims: Sequence[int], order: Sequence[int]):
    """reorder tensor factors: new factor k = old factor order[k]"""
    n = len(dims)
    t = rho.reshape(list(dims) * 2)
    t = np.transpose(t, list(order) + [n + i for i in order])
    nd = [dims[i] for i in order]
    D = _prod(nd)
    return t.reshape(D, D), nd


def pad(rho: np.ndarray, dims: Sequence[int], new_dims: Sequence[int]) -> np.ndarray:
    """zero-pad (or refuse to cut) each factor to new_dims[i] >= dims[i]"""
    n = len(dims)
    if list(dims) == list(new_dims):
        return rho
    t = rho.reshape(list(dims) * 2)
    padw = []
    for i in range(n):
        if new_dims[i] < dims[i]:
            raise ValueError("pad cannot shrink")
        padw.append((0, new_dims[i] - dims[i]))
    t = np.pad(t, padw + padw)
    D = _prod(new_dims)
    return t.reshape(D, D)


def truncate(rho: np.ndarray, dims: Sequence[int], new_dims: Sequence[int]) -> np.ndarray:
    n = len(dims)
    t = rho.reshape(list(dims) * 2)
    sl = tuple(slice(0, min(new_dims[i], dims[i])) for i in range(n))
    t = t[sl + sl]
    nd = [min(new_dims[i], dims[i]) for i in range(n)]
    D = _prod(nd)
    return t.reshape(D, D)


def project(rho, dims, idx: int, outcome: int):
    """unnormalised projection of subsystem idx on |outcome> and removal of that factor"""
    n = len(dims)
    t = rho.reshape(list(dims) * 2)
    sl = [slice(None)] * (2 * n)
    sl[idx] = outcome
    sl[n + idx] = outcome
    t = t[tuple(sl)]
    nd = [d for i, d in enumerate(dims) if i != idx]
    D = _prod(nd)
    return t.reshape(D, D), nd


def diag_marginal(rho, dims, idx: int) -> np.ndarray:
    return np.real(np.diag(ptrace(rho, dims, [idx])))


def trace_distance(a: np.ndarray, b: np.ndarray) -> float:
    """distance between two operators: 0.5*||H||_1 of the Hermitian part H of a-b (exact trace
    distance) for dimension <= 160, else the Frobenius norm ||H||_F (cheap; it satisfies
    ||H||_F <= ||H||_1 <= sqrt(D) ||H||_F, and index/sign errors are O(1) in both), plus the largest
    anti-Hermitian element."""
    d = a - b
    if not np.all(np.isfinite(d)):
        return float("inf")
    h = 0.5 * (d + d.conj().T)
    ah = 0.5 * (d - d.conj().T)
    if h.shape[0] <= 160:
        td = 0.5 * float(np.sum(np.abs(np.linalg.eigvalsh(h))))
    else:
        td = float(np.linalg.norm(h))
    return td + float(np.max(np.abs(ah), initial=0.0))


def purity(rho) -> float:
    return float(np.real(np.trace(rho @ rho)))


def number_distribution(rho, dims, modes: Sequence[int], nmax: int) -> np.ndarray:
    """distribution of the total photon number of the given modes"""
    red = ptrace(rho, dims, list(modes))
    md = [dims[i] for i in modes]
    diag = np.real(np.diag(red)).reshape(md)
    out = np.zeros(nmax + 1)
    for idx in np.ndindex(*md):
        s = sum(idx)
        if s <= nmax:
            out[s] += diag[idx]
        elif diag[idx] > 0:
            out[nmax] += 0  # beyond range: ignored by construction (callers size nmax)
    return out


# ----------------------------------------------------------------------------------------
# self-test (harness error, not a violation, when it fails)
# ----------------------------------------------------------------------------------------
def selftest() -> None:
    rng = np.random.default_rng(12345)
    dims = [3, 2, 2, 4]
    D = _prod(dims)
    rho = rand_mixed(rng, D, 5)
    for targets in ([0], [2], [3, 1], [1, 3], [2, 0, 3]):
        d = _prod(dims[i] for i in targets)
        o = rng.normal(size=(d, d)) + 1j * rng.normal(size=(d, d))
        a = apply_op(rho, dims, targets, o)
        e = embed(dims, targets, o)
        b = e @ rho @ e.conj().T
        assert np.allclose(a, b, atol=1e-12), "apply_op and embed disagree"
    # partial trace identities
    r1 = rand_mixed(rng, 3, 2)
    r2 = rand_mixed(rng, 2, 2)
    r3 = rand_mixed(rng, 4, 3)
    prod_ = np.kron(np.kron(r1, r2), r3)
    assert np.allclose(ptrace(prod_, [3, 2, 4], [1]), r2)
    assert np.allclose(ptrace(prod_, [3, 2, 4], [2, 0]), np.kron(r3, r1))
    p, nd = permute(prod_, [3, 2, 4], [2, 0, 1])
    assert nd == [4, 3, 2] and np.allclose(p, np.kron(np.kron(r3, r1), r2))
    for u in (CX, CZ, SWAP, CSWAP, beam_splitter(3, 3, 0.7), displace(12, 0.3 + 0.2j), squeeze(12, 0.2j)):
        assert np.allclose(u.conj().T @ u, np.eye(u.shape[0]), atol=1e-9)
    ks = rand_kraus(rng, 3, 3)
    assert np.allclose(sum(k.conj().T @ k for k in ks), np.eye(3), atol=1e-12)
    pr, nd = project(prod_, [3, 2, 4], 1, 1)
    assert np.allclose(pr, np.kron(r1, r3) * r2[1, 1])
    assert abs(trace_distance(r1, r1)) < 1e-14
    padded = pad(prod_, [3, 2, 4], [5, 2, 4])
    assert np.allclose(truncate(padded, [5, 2, 4], [3, 2, 4]), prod_)
