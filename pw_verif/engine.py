"""
Execution of generated programs against the real library with per-step oracles.

Each step is checked from the library's own pre-state: the joint density matrix is
reconstructed from the object graph before and after the public call and compared with what
the independent reference model predicts for that call (DESIGN.md 2.2/2.3).
"""
from __future__ import annotations

from typing import Dict, List, Optional

import numpy as np

from pw_verif import actions, ref
from pw_verif.harness import LibRaised, Violation, libcall
from pw_verif.sampler import SAMPLER
from pw_verif.snap import Malformed, Snapshot, bookkeeping_problems, snapshot, validity_problems
from pw_verif.world import World, prepare, reset_library_globals

TOL_EXACT = 1e-8
TOL_EXPM = 1e-6       # operators built by a matrix exponential with |eta| up to 4 pi (jax expm ~2e-9 per element)
TOL_TRUNC = 2.5e-3    # displacement / squeezing: documented threshold keeps 1-1e-6 of the population (~1e-3 in amplitude); measured worst case on the repaired tree 6e-4


def site_of(world: World, pre: Snapshot, targets: List[str], entry: str, action: str, extra=None) -> dict:
    t0 = targets[0]
    b = pre.block_of(t0) if t0 in pre.where else None
    site = dict(
        action=action,
        entry=entry,
        kind=world.kind.get(t0, "?"),
        storage=(b.kind if b else "dead"),
        rep=(b.rep if b else "none"),
        nblock=(len(b.members) if b else 0),
        in_ce=bool(world.ce_of_sub(t0)) if t0 in world.obj else False,
        cls=world.block_cls.get(t0, "label"),
    )
    if extra:
        site.update(extra)
    return site


class Run:
    def __init__(self, spec: dict, layout: List[dict], contraction: bool = True, seed: int = 0):
        reset_library_globals(seed, contraction)
        SAMPLER.install()
        SAMPLER.reset()
        self.world = World(spec)
        try:
            prepare(self.world, layout)
        except Exception as e:  # preparation goes through public calls too
            raise PrepFailed(e)

    def snap(self, need_rho=True) -> Snapshot:
        return snapshot(self.world, need_rho=need_rho)

    # ----------------------------------------------------------------------------------
    def call_op(self, opdesc: dict, entry: str, targets: List[str], reuse: bool = False):
        """reuse: apply the Operation object an earlier step of this program built from the same description
        (users keep such objects around; what it does must not depend on its history)"""
        import json

        w = self.world
        objs = [w.obj[t] for t in targets]
        tdims = [w.dim(t) if w.dim(t) > 0 else (int(w.obj[t].state) + 2 if isinstance(w.obj[t].state, int) else 2) for t in targets]
        sized = opdesc["type"] in ("fock:Custom", "custom:Custom", "custom:Expresion") or any(f.get("kind") == "custom" for f in opdesc.get("factors", []))
        key = json.dumps([opdesc, tdims if sized else None], sort_keys=True)
        pool = self.__dict__.setdefault("op_pool", {})
        if reuse and key in pool:
            op = pool[key]
        else:
            op = libcall(actions.make_operation, opdesc, tdims)
            pool[key] = op
        if entry == "state":
            libcall(objs[0].apply_operation, op)
        elif entry == "env":
            env = w.envs[w.env_of[targets[0]]]
            libcall(env.apply_operation, op, *objs)
        else:
            libcall(w.ces[entry].apply_operation, op, *objs)
        return tdims

    def check_op(self, opdesc: dict, entry: str, targets: List[str], prop: str = "C01") -> dict:
        """apply one operation through `entry` and compare with the reference"""
        w = self.world
        pre = self.snap()
        site = site_of(w, pre, targets, "ce" if entry.startswith("ce") else entry, "op",
                       dict(optype=opdesc["type"], renorm=actions.is_renormalising(opdesc["type"])))
        tdims = [w.dim(t) if w.dim(t) > 0 else (int(w.obj[t].state) + 2 if isinstance(w.obj[t].state, int) else 2) for t in targets]
        # expected result first (needs only the pre-state); post dims patched in later
        raised = None
        try:
            self.call_op(opdesc, entry, targets)
        except LibRaised as e:
            raised = e
        try:
            post = self.snap()
        except Malformed as m:
            if m.what == "too-big":
                return dict(outcome="inconclusive-too-big", site=site, pre=pre, post=None)
            raise Violation("malformed-after-op", f"{opdesc['type']} via {entry} on {targets}: {m.reason}", dict(site, what=m.what))
        post_dims = dict(zip(post.names, post.dims))
        exp, common, tr = actions.expected_after_op(opdesc, pre, targets, post_dims, tdims)
        if raised is not None:
            if exp is None:
                # legitimate rejection (e.g. annihilating the vacuum); state must be unchanged -> C17's business
                return dict(outcome="rejected", site=site, pre=pre, post=post)
            raise Violation("raised", f"{opdesc['type']} via {entry} on {targets} raised {raised}", dict(site, sig=raised.sig()))
        if exp is None:
            raise Violation("zero-not-rejected", f"{opdesc['type']} on {targets}: ideal result is the zero operator but the call succeeded", site)
        if post.names != pre.names:
            raise Violation("subsystems-changed", f"operation changed the set of live subsystems {pre.names} -> {post.names}", site)
        post_c = [max(c, d) for c, d in zip(common, post.dims)]
        got = ref.pad(post.rho, post.dims, post_c)
        want = ref.pad(exp, common, post_c)
        td = ref.trace_distance(got, want)
        fam, name = opdesc["type"].split(":")
        tol = TOL_TRUNC if name in ("Displace", "Squeeze") else TOL_EXACT
        if td > tol:
            trg = float(np.real(np.trace(got)))
            what = "trace" if abs(trg - 1) > 1e-6 and abs(trg) > 1e-9 and ref.trace_distance(got / trg, want) <= tol else "state"
            raise Violation("differs", f"{opdesc['type']} via {entry} on {targets} (storage {site['storage']}/{site['rep']}): "
                            f"trace distance {td:.3e} from (OxI)rho(OxI)+ (trace of result {trg:.6f})", dict(site, what=what))
        return dict(outcome="applied", site=site, pre=pre, post=post, td=td)


class PrepFailed(Exception):
    def __init__(self, exc):
        super().__init__(repr(exc))
        self.exc = exc
