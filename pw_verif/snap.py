"""
Observation of the photon_weave object graph from user-held handles only.

snapshot(world) -> Snapshot: block partition, joint density matrix of all live subsystems in
canonical (creation) order, bookkeeping view. Raises Malformed when the graph cannot be
interpreted as a quantum state (that is itself an oracle for C07/C13).
"""
from __future__ import annotations

import math
from dataclasses import dataclass, field
from typing import Any, Dict, List, Optional

import numpy as np

from pw_verif import ref


class Malformed(Exception):
    def __init__(self, reason: str, what: str = "malformed"):
        super().__init__(reason)
        self.reason = reason
        self.what = what


@dataclass
class Block:
    kind: str                 # own | env | ps
    members: List[str]        # names, tensor order
    dims: List[int]
    level: Optional[int]      # reported expansion level (int) or None
    rep: str                  # label | vector | matrix  (from the data itself)
    array: Any                # np.ndarray copy (vector/matrix) or label (int / 'H','V','R','L')
    container: str            # identity of the holder ("own:e0.f", "env:e0", "ps:<ce>:<uid>")
    obj: Any = None           # the holder object (not serialised)

    def rho(self) -> np.ndarray:
        D = 1
        for d in self.dims:
            D *= d
        if self.rep == "label":
            lab = self.array
            if isinstance(lab, str):
                v = {"H": [1, 0], "V": [0, 1], "R": [1 / math.sqrt(2), 1j / math.sqrt(2)],
                     "L": [1 / math.sqrt(2), -1j / math.sqrt(2)]}[lab]
                return ref.pure_rho(v)
            return ref.basis_rho(D, int(lab))
        if self.rep == "vector":
            return ref.pure_rho(self.array)
        return np.array(self.array, dtype=complex)

    def signature(self):
        a = self.array
        if isinstance(a, np.ndarray):
            data = (str(a.dtype), a.shape, a.tobytes())
        else:
            data = ("label", a)
        return (self.kind, self.container, tuple(self.members), tuple(self.dims), self.level, self.rep, data)


@dataclass
class Snapshot:
    names: List[str]                      # live subsystems, canonical order
    dims: List[int]
    rho: Optional[np.ndarray]
    blocks: List[Block]
    where: Dict[str, int]                 # name -> block number
    dead: List[str] = field(default_factory=list)

    def dim_of(self, name):
        return self.dims[self.names.index(name)]

    def block_of(self, name) -> Block:
        return self.blocks[self.where[name]]

    def partition(self):
        return sorted(tuple(sorted(b.members)) for b in self.blocks)


def _level_int(x):
    try:
        return None if x is None else int(x)
    except Exception:
        return None


def _classify_array(arr, D: int, who: str, level=None):
    """returns rep for an ndarray holding a state of total dimension D (a 1x1 array is read
    according to the reported level: the shape cannot tell)"""
    shape = tuple(arr.shape)
    if shape == (D, 1):
        return "vector" if (D != 1 or level == 1) else "matrix"
    if shape == (D, D):
        return "matrix"
    raise Malformed(f"{who}: array shape {shape} does not match product of member dimensions {D}", "shape")


def _label_value(kind: str, state):
    from photon_weave.state.polarization import PolarizationLabel

    if isinstance(state, PolarizationLabel):
        return state.value
    if isinstance(state, (int, np.integer)) and not isinstance(state, bool):
        return int(state)
    return None


def containers_of(world) -> List[Any]:
    """all CompositeEnvelopeContainer objects reachable from the user's handles"""
    from photon_weave.state.composite_envelope import CompositeEnvelope

    out, seen = [], set()

    def add(c):
        if c is not None and id(c) not in seen:
            seen.add(id(c))
            out.append(c)

    for ce in world.ces.values():
        add(CompositeEnvelope._containers.get(ce.uid))
    for env in world.envs.values():
        cid = getattr(env, "composite_envelope_id", None)
        if cid is not None:
            add(CompositeEnvelope._containers.get(cid))
    for name, s in world.subs:
        ce = getattr(s, "composite_envelope", None) if not _is_dead(s) else None
        if ce is not None:
            add(CompositeEnvelope._containers.get(ce.uid))
    return out


def _is_dead(s) -> bool:
    try:
        return bool(s.measured)
    except Exception:
        return False


def snapshot(world, need_rho: bool = True, max_dim: int = 3072) -> Snapshot:
    import jax.numpy as jnp  # noqa: F401

    name_of = {id(s): n for n, s in world.subs}
    live = [(n, s) for n, s in world.subs if not _is_dead(s)]
    dead = [n for n, s in world.subs if _is_dead(s)]
    blocks: List[Block] = []
    where: Dict[str, int] = {}

    def place(name, bi, what):
        if name in where:
            raise Malformed(f"{name} is stored twice ({blocks[where[name]].container} and {what})", "stored-twice")
        where[name] = bi

    # product states of all reachable containers
    for cont in containers_of(world):
        seen_ps = set()
        for ps in cont.states:
            if id(ps) in seen_ps:
                raise Malformed(f"product space {ps.uid} listed twice in container {cont.composite_uid}", "ps-listed-twice")
            seen_ps.add(id(ps))
            members = []
            for so in ps.state_objs:
                if id(so) not in name_of:
                    raise Malformed("product space holds an object the user never created", "foreign-member")
                members.append(name_of[id(so)])
            if not members:
                # empty product spaces are a bookkeeping matter (C13), physically irrelevant
                continue
            dims = [int(so.dimensions) for so in ps.state_objs]
            D = int(np.prod(dims))
            arr = np.asarray(ps.state)
            rep = _classify_array(arr, D, f"product space of {members}", _level_int(ps.expansion_level))
            b = Block("ps", members, dims, _level_int(ps.expansion_level), rep, np.array(arr), f"ps:{ps.uid}", ps)
            blocks.append(b)
            for m in members:
                if m in dead:
                    raise Malformed(f"destroyed subsystem {m} still in a product space", "dead-in-ps")
                place(m, len(blocks) - 1, b.container)

    # envelope blocks
    for ename, env in world.envs.items():
        if env.state is None:
            continue
        f, p = env.fock, env.polarization
        fn, pn = name_of[id(f)], name_of[id(p)]
        if fn in where or pn in where:
            raise Malformed(f"envelope {ename} holds a combined state while a member is in a product space", "stored-twice")
        fi, pi = f.index, p.index
        if not (isinstance(fi, int) and isinstance(pi, int) and sorted([fi, pi]) == [0, 1]):
            raise Malformed(f"envelope {ename} holds a combined state but member indices are {fi!r},{pi!r}", "env-index")
        members = [fn, pn] if fi == 0 else [pn, fn]
        dims = [int(f.dimensions), 2] if fi == 0 else [2, int(f.dimensions)]
        arr = np.asarray(env.state)
        rep = _classify_array(arr, dims[0] * dims[1], f"envelope {ename}", _level_int(env.expansion_level))
        b = Block("env", members, dims, _level_int(env.expansion_level), rep, np.array(arr), f"env:{ename}", env)
        blocks.append(b)
        for m in members:
            if m in dead:
                raise Malformed(f"destroyed subsystem {m} still in envelope state", "dead-in-env")
            place(m, len(blocks) - 1, b.container)

    # own states
    for n, s in live:
        st = s.state
        if st is None:
            if n not in where:
                raise Malformed(f"{n} is live but stored nowhere (state None, index {s.index!r})", "stored-nowhere")
            continue
        kind = world.kind[n]
        lab = _label_value(kind, st)
        if lab is not None:
            if kind == "pol":
                if not isinstance(lab, str):
                    raise Malformed(f"{n}: polarization holds integer label {lab}", "label-type")
                d = 2
            else:
                d = int(s.dimensions)
                if isinstance(lab, str):
                    raise Malformed(f"{n}: non-polarization holds polarization label", "label-type")
                if lab < 0:
                    raise Malformed(f"{n}: negative label {lab}", "label-range")
                if kind == "fock" and d <= lab:
                    if d > 0:
                        raise Malformed(f"{n}: label {lab} outside dimension {d}", "label-range")
                    d = lab + 1  # dimension not yet chosen (-1): minimal representation
                if kind == "custom" and lab >= d:
                    raise Malformed(f"{n}: label {lab} outside dimension {d}", "label-range")
            b = Block("own", [n], [d], _level_int(s.expansion_level), "label", lab, f"own:{n}", s)
        else:
            arr = np.asarray(st)
            d = int(s.dimensions)
            if arr.ndim != 2:
                raise Malformed(f"{n}: state array has shape {arr.shape}", "shape")
            rep = _classify_array(arr, d, n, _level_int(s.expansion_level))
            b = Block("own", [n], [d], _level_int(s.expansion_level), rep, np.array(arr), f"own:{n}", s)
        blocks.append(b)
        place(n, len(blocks) - 1, b.container)

    names = [n for n, _ in live]
    for n in names:
        if n not in where:
            raise Malformed(f"{n} is live but stored nowhere", "stored-nowhere")
    dims = [blocks[where[n]].dims[blocks[where[n]].members.index(n)] for n in names]

    rho = None
    if need_rho:
        total = int(np.prod(dims)) if dims else 1
        if total > max_dim:
            raise Malformed(f"joint dimension {total} exceeds harness cap {max_dim}", "too-big")
        cur: List[str] = []
        cdims: List[int] = []
        rho = np.ones((1, 1), complex)
        for b in blocks:
            rho = np.kron(rho, b.rho())
            cur += b.members
            cdims += b.dims
        order = [cur.index(n) for n in names]
        rho, nd = ref.permute(rho, cdims, order)
        assert nd == dims
    return Snapshot(names, dims, rho, blocks, where, dead)


# ----------------------------------------------------------------------------------------
# validity predicate (C07) and bookkeeping predicate (C13)
# ----------------------------------------------------------------------------------------
def validity_problems(world, snap: Snapshot, tol: float = 1e-8) -> List[str]:
    probs = []
    for b in snap.blocks:
        who = "+".join(b.members)
        if b.rep == "label":
            if b.level is not None and b.level != 0:
                probs.append(f"level-tag: {who} holds a label but reports level {b.level}")
            continue
        a = b.array
        if not np.all(np.isfinite(a)):
            probs.append(f"nonfinite: {who}")
            continue
        if b.rep == "vector":
            nrm = float(np.linalg.norm(a))
            if abs(nrm - 1) > tol:
                probs.append(f"norm: {who} vector norm {nrm!r}")
            if b.level != 1:
                probs.append(f"level-tag: {who} holds a vector but reports level {b.level}")
        else:
            tr = complex(np.trace(a))
            if abs(tr - 1) > tol:
                probs.append(f"trace: {who} matrix trace {tr!r}")
            if np.max(np.abs(a - a.conj().T), initial=0) > tol:
                probs.append(f"hermitian: {who}")
            else:
                lam = float(np.min(np.linalg.eigvalsh(0.5 * (a + a.conj().T))))
                if lam < -tol:
                    probs.append(f"positive: {who} min eigenvalue {lam!r}")
            if b.level != 2 and not (a.shape == (1, 1)):
                probs.append(f"level-tag: {who} holds a matrix but reports level {b.level}")
        # members report the block's level
        if b.kind in ("env", "ps"):
            for m in b.members:
                ml = _level_int(world.obj[m].expansion_level)
                if ml != b.level:
                    probs.append(f"member-level: {m} reports {ml} inside a block at level {b.level}")
    return probs


def bookkeeping_problems(world, snap: Snapshot) -> List[str]:
    from photon_weave.state.composite_envelope import CompositeEnvelope

    probs = []
    # index names the place
    for n in snap.names:
        s = world.obj[n]
        b = snap.block_of(n)
        idx = s.index
        if b.kind == "own":
            if idx is not None:
                probs.append(f"index: {n} holds its own state but index is {idx!r}")
        elif b.kind == "env":
            if idx != b.members.index(n):
                probs.append(f"index: {n} at position {b.members.index(n)} of its envelope but index is {idx!r}")
        else:
            ps = b.obj
            cont = ps.container
            try:
                major = [id(x) for x in cont.states].index(id(ps))
            except ValueError:
                major = None
            want = (major, b.members.index(n))
            if not (isinstance(idx, (tuple, list)) and tuple(idx) == want):
                probs.append(f"index: {n} stored at {want} but index is {idx!r}")
            ce = getattr(s, "composite_envelope", None)
            if ce is None or CompositeEnvelope._containers.get(ce.uid) is not cont:
                probs.append(f"backpointer: {n} is stored in a product space of a container its composite_envelope does not resolve to")
    for n in snap.dead:
        s = world.obj[n]
        if s.index is not None or s.state is not None:
            probs.append(f"dead: destroyed {n} still has index {s.index!r} / state")
    # containers
    for cont in containers_of(world):
        ids = [id(p) for p in cont.states]
        if len(ids) != len(set(ids)):
            probs.append("container: a product space is listed twice")
        for p in cont.states:
            if len(p.state_objs) == 0:
                probs.append("container: empty product space left behind")
            if p.container is not cont:
                probs.append("container: product space points to a different container")
        eids = [id(e) for e in cont.envelopes]
        if len(eids) != len(set(eids)):
            probs.append("container: an envelope is listed twice")
        sids = [id(s) for s in cont.state_objs]
        if len(sids) != len(set(sids)):
            probs.append("container: a subsystem is listed twice in state_objs")
        for e in cont.envelopes:
            cid = e.composite_envelope_id
            if cid is None or CompositeEnvelope._containers.get(cid) is not cont:
                probs.append("backpointer: member envelope's composite id does not resolve to its container")
    # handles of merged composites agree
    for cname, ce in world.ces.items():
        if ce.uid not in CompositeEnvelope._containers:
            probs.append(f"handle: {cname} uid not registered")
    for group in getattr(world, "ce_groups", []):
        conts = {id(CompositeEnvelope._containers.get(world.ces[c].uid)) for c in group}
        if len(conts) > 1:
            probs.append(f"handles: merged composite handles {sorted(group)} resolve to {len(conts)} different containers")
    return probs
