"""
Generic driver: Hypothesis-generated cases, sharded over worker processes, explicit
oracles, known-finding handling, replay files and evidence.

A property module (pw_verif/props/cXX.py) provides

    PROP        "C12"
    LEVEL       "exploration" | "fault_enumeration"
    RULE        text: how cases are generated, what makes one non-trivial / distinct
    ASSUMPTIONS list of str
    BUDGET      {"quick": n_examples, "thorough": n_examples}
    strategy(tier)          -> hypothesis strategy producing a JSON-able case (dict)
    run_case(case)          -> dict(nontrivial=bool, key=str, labels=[str], ...)
                               raises Violation when the property is violated
    fixed_cases(tier)       -> optional list of cases always run (regressions, grid)
    selftest()              -> optional; raises on harness/reference inconsistency

Exit codes of `check`: 0 held, 1 violation (with VIOLATION lines), 2 harness error.
"""

from __future__ import annotations

import hashlib
import importlib
import json
import multiprocessing as mp
import os
import signal
import sys
import time
import traceback
from collections import Counter
from typing import Any, Dict, List, Optional

VERIF_DIR = os.path.dirname(os.path.dirname(os.path.abspath(__file__)))
REPO_DIR = os.environ.get("PW_REPO", "/repo")
KNOWN_FILE = os.path.join(VERIF_DIR, "known_findings.json")
# evidence / replay files of experimental runs (mutants) can be redirected; registered commands never set this
OUT_DIR = os.environ.get("PW_VERIF_OUT", VERIF_DIR)
NPROC = int(os.environ.get("PW_VERIF_NPROC", "16"))


# --------------------------------------------------------------------------------------
# exceptions
# --------------------------------------------------------------------------------------
class Violation(Exception):
    """The property is violated by the code under test."""

    def __init__(self, oracle: str, detail: str, site: Optional[dict] = None):
        super().__init__(f"[{oracle}] {detail}")
        self.oracle = oracle
        self.detail = detail
        self.site = dict(site or {})

    BUCKET_KEYS = ("action", "kind", "storage", "rep", "reps", "what", "sig", "fault", "gate", "type", "scale")

    def bucket(self) -> str:
        keys = sorted(k for k in self.site if k in self.BUCKET_KEYS)
        return self.oracle + "|" + ",".join(f"{k}={self.site[k]}" for k in keys)


class LibRaised(Exception):
    """A call into photon_weave raised; properties decide whether that is acceptable."""

    def __init__(self, exc: BaseException):
        self.exc = exc
        self.etype = type(exc).__name__
        self.frame = innermost_lib_frame(exc)
        super().__init__(f"{self.etype}: {exc} @ {self.frame}")

    def sig(self) -> str:
        return f"{self.etype}@{self.frame}"


class CaseTimeout(Exception):
    pass


def innermost_lib_frame(exc: BaseException) -> str:
    tb = traceback.extract_tb(exc.__traceback__)
    best = "outside-photon_weave"
    for fr in tb:
        fn = fr.filename.replace("\\", "/")
        if "/photon_weave/" in fn and "/pw_verif/" not in fn:
            # function name only: line numbers move with unrelated edits
            best = fn.split("/photon_weave/", 1)[1] + ":" + fr.name
    return best


def libcall(fn, *a, **kw):
    """Run a public library call; wrap anything it raises into LibRaised."""
    try:
        return fn(*a, **kw)
    except CaseTimeout:
        raise
    except Exception as e:  # noqa: BLE001 - the library may raise anything
        raise LibRaised(e) from e


# --------------------------------------------------------------------------------------
# environment for workers
# --------------------------------------------------------------------------------------
def setup_env() -> None:
    os.environ.setdefault("PYTHONHASHSEED", "0")
    os.environ.setdefault("JAX_PLATFORMS", "cpu")
    os.environ.setdefault("OMP_NUM_THREADS", "1")
    os.environ.setdefault("OPENBLAS_NUM_THREADS", "1")
    os.environ.setdefault("MKL_NUM_THREADS", "1")
    flags = os.environ.get("XLA_FLAGS", "")
    if "xla_cpu_multi_thread_eigen" not in flags:
        os.environ["XLA_FLAGS"] = (
            flags + " --xla_cpu_multi_thread_eigen=false intra_op_parallelism_threads=1"
        ).strip()
    if REPO_DIR not in sys.path:
        sys.path.insert(0, REPO_DIR)
    if VERIF_DIR not in sys.path:
        sys.path.insert(0, VERIF_DIR)


def limit_memory(gb: float = 14.0) -> None:
    """Guard against a runaway allocation in the code under test (e.g. an unbounded dimension search
    once grew a worker to 30 GB and the OOM killer took it): a daemon thread polls this worker's
    resident set size and ends the worker when it exceeds the cap. The parent notices the dead worker
    and reports a harness error for that shard instead of hanging. (A limit on the address space is not
    used: XLA's JIT maps far more virtual memory than it touches and aborts under RLIMIT_AS.)"""
    import threading

    page = os.sysconf("SC_PAGE_SIZE")
    cap = gb * 2**30

    def watch():
        while True:
            try:
                with open("/proc/self/statm") as f:
                    rss = int(f.read().split()[1]) * page
                if rss > cap:
                    sys.stderr.write(f"pw_verif worker {os.getpid()}: resident set {rss / 2**30:.1f} GB exceeds {gb} GB cap - exiting\n")
                    sys.stderr.flush()
                    os._exit(97)
            except Exception:
                pass
            time.sleep(0.5)

    threading.Thread(target=watch, daemon=True).start()


def setup_jax() -> None:
    import warnings

    import jax

    warnings.filterwarnings("ignore", message=".*persistent compilation cache.*")

    cache = os.path.join(VERIF_DIR, ".cache", "jax")
    try:
        os.makedirs(cache, exist_ok=True)
        jax.config.update("jax_compilation_cache_dir", cache)
        jax.config.update("jax_persistent_cache_min_entry_size_bytes", -1)
        jax.config.update("jax_persistent_cache_min_compile_time_secs", 0)
    except Exception:  # cache is an optimisation only
        pass
    jax.config.update("jax_enable_x64", True)


def load_prop(prop: str):
    return importlib.import_module(f"pw_verif.props.{prop.lower()}")


def load_regressions(prop: str) -> List[Any]:
    """saved (shrunk) failing cases of earlier runs: replayed first on every run"""
    d = os.path.join(VERIF_DIR, "regressions", prop)
    out = []
    if os.path.isdir(d):
        for fn in sorted(os.listdir(d)):
            if fn.endswith(".json"):
                with open(os.path.join(d, fn)) as f:
                    data = json.load(f)
                out.append(data["case"] if isinstance(data, dict) and "case" in data else data)
    return out


def case_hash(case: Any) -> str:
    return hashlib.sha1(json.dumps(case, sort_keys=True, default=str).encode()).hexdigest()[:16]


# --------------------------------------------------------------------------------------
# known findings
# --------------------------------------------------------------------------------------
def load_known(prop: str) -> List[dict]:
    if not os.path.exists(KNOWN_FILE):
        return []
    with open(KNOWN_FILE) as f:
        data = json.load(f)
    return [e for e in data.get("findings", []) if e.get("property") == prop and e.get("status") == "open"]


def region_match(region: dict, site: dict, oracle: str) -> bool:
    """region: {"oracle": [..] (optional), key: value | [values], ...} over the violation site."""
    for k, v in region.items():
        if k == "oracle":
            got = oracle
        else:
            if k not in site:
                return False
            got = site[k]
        vals = v if isinstance(v, list) else [v]
        if got not in vals:
            return False
    return True


def match_known(active: List[dict], v: Violation) -> Optional[str]:
    for e in active:
        for region in e.get("regions", []):
            if region_match(region, v.site, v.oracle):
                return e["id"]
    return None


# --------------------------------------------------------------------------------------
# running one case under a watchdog
# --------------------------------------------------------------------------------------
def _alarm(signum, frame):
    raise CaseTimeout()


def run_with_watchdog(mod, case, seconds: int):
    signal.signal(signal.SIGALRM, _alarm)
    signal.alarm(seconds)
    try:
        return mod.run_case(case)
    finally:
        signal.alarm(0)


# --------------------------------------------------------------------------------------
# worker
# --------------------------------------------------------------------------------------
def worker(args: dict) -> dict:
    setup_env()
    t0 = time.time()
    out: Dict[str, Any] = dict(
        shard=args["shard"], evaluations=0, nontrivial_keys=[], labels={}, samples=[],
        failures=[], known_hits={}, timeouts=0, dup_bucket=0, error=None, wall=0.0,
    )
    try:
        setup_jax()
        limit_memory(float(os.environ.get("PW_VERIF_MEM_GB", "14")))
        import hypothesis
        from hypothesis import HealthCheck, Phase, given, settings

        mod = load_prop(args["prop"])
        if hasattr(mod, "worker_init"):
            mod.worker_init()
        tier = args["tier"]
        active = args["active_known"]
        watchdog = 120 if tier == "quick" else 600
        labels: Counter = Counter()
        known_hits: Counter = Counter()
        nontrivial = set()
        samples: List[Any] = []
        nt_samples: List[Any] = []
        swallowed_buckets = set()
        state: Dict[str, Any] = {}

        def execute(case, count=True):
            """returns None or a Violation that is new (not known, not a swallowed bucket)"""
            state["exec_n"] = state.get("exec_n", 0) + 1
            hungry = False
            if state["exec_n"] % 20 == 0:
                try:
                    with open("/proc/self/statm") as f_:
                        hungry = int(f_.read().split()[1]) * os.sysconf("SC_PAGE_SIZE") > 6e9
                except Exception:  # noqa: BLE001
                    hungry = False
            if state["exec_n"] % 400 == 0 or hungry:
                # long runs compile thousands of shapes: drop jax's in-memory executables now and then
                try:
                    import gc

                    import jax

                    jax.clear_caches()
                    gc.collect()
                except Exception:
                    pass
            try:
                info = run_with_watchdog(mod, case, watchdog)
            except CaseTimeout:
                out["timeouts"] += 1
                return None
            except Violation as v:
                if count:
                    out["evaluations"] += 1
                kid = match_known(active, v)
                if kid is not None:
                    known_hits[kid] += 1
                    return None
                if v.bucket() in swallowed_buckets:
                    out["dup_bucket"] += 1
                    return None
                return v
            if count:
                out["evaluations"] += 1
                for lab in info.get("labels", []):
                    labels[lab] += 1
                if info.get("nontrivial"):
                    nontrivial.add(info.get("key") or case_hash(case))
                    if len(nt_samples) < 3:
                        nt_samples.append(case)
                elif len(samples) < 2:
                    samples.append(case)
            return None

        # fixed cases (regressions / grid), sharded round-robin
        fixed = list(mod.fixed_cases(tier)) if hasattr(mod, "fixed_cases") else []
        fixed += load_regressions(args["prop"])
        for i, case in enumerate(fixed):
            if i % args["nshards"] != args["shard"]:
                continue
            v = execute(case)
            if v is not None:
                out["failures"].append(dict(case=case, message=str(v), bucket=v.bucket(), oracle=v.oracle, site=v.site, shrunk=False, origin="fixed"))
                swallowed_buckets.add(v.bucket())

        remaining = args["n_examples"]
        rounds = 0
        shrink_budget = 45 if tier == "quick" else 240
        while remaining > 0 and rounds < 4:
            rounds += 1
            state.clear()
            state.update(last=None, last_fail=None, fail_t=None, n=0, failed=set())
            sd = (args["seed"] * 1000003 + args["shard"] * 7919 + rounds * 104729) % (2**63)

            @hypothesis.seed(sd)
            @settings(
                max_examples=remaining, deadline=None, database=None, derandomize=False,
                report_multiple_bugs=False, suppress_health_check=list(HealthCheck),
                phases=[Phase.generate, Phase.shrink],
            )
            @given(mod.strategy(tier))
            def test(case):
                state["last"] = case
                if state["fail_t"] is not None:
                    # shrinking; bound its cost
                    if time.time() - state["fail_t"] > shrink_budget and json.dumps(case, sort_keys=True, default=str) not in state["failed"]:
                        return
                    v = execute(case, count=False)
                else:
                    state["n"] += 1
                    v = execute(case)
                if v is not None:
                    if state["fail_t"] is None:
                        state["fail_t"] = time.time()
                        _report_partial(dict(case=case, message=str(v), bucket=v.bucket(), oracle=v.oracle, site=v.site, shrunk=False, origin="generated"))
                    state["last_fail"] = json.dumps(case, sort_keys=True, default=str)
                    state["failed"].add(state["last_fail"])
                    state["v"] = v
                    raise v

            try:
                test()
                remaining = 0
            except Violation as v:
                case = json.loads(state["last_fail"])
                out["failures"].append(dict(case=case, message=str(v), bucket=v.bucket(), oracle=v.oracle, site=v.site, shrunk=True, origin="generated"))
                swallowed_buckets.add(v.bucket())
                remaining -= state["n"]
            except hypothesis.errors.Flaky as e:
                if getattr(mod, "FLAKY_IS_VIOLATION", False) and state.get("last_fail") and state.get("v") is not None:
                    # the property itself is about reproducibility: an oracle failure that does not
                    # recur when the very same case is run again is the violation, not a harness fault
                    v = state["v"]
                    out["failures"].append(dict(case=json.loads(state["last_fail"]), message=str(v) + " [did not recur on immediate re-execution of the same case]",
                                                bucket=v.bucket(), oracle=v.oracle, site=v.site, shrunk=False, origin="generated"))
                    swallowed_buckets.add(v.bucket())
                    remaining -= max(state["n"], 1)
                else:
                    # a failure that does not reproduce is a harness problem (state leak), never a violation
                    out["error"] = "Flaky: " + str(e)[:2000]
                    remaining = 0
        out["labels"] = dict(labels)
        out["known_hits"] = dict(known_hits)
        out["nontrivial_keys"] = sorted(nontrivial)
        out["samples"] = nt_samples + samples
    except Exception:  # harness error
        out["error"] = traceback.format_exc()[-4000:]
    out["wall"] = time.time() - t0
    return out


# --------------------------------------------------------------------------------------
# replay of one saved case (bypasses Hypothesis)
# --------------------------------------------------------------------------------------
def replay_case(prop: str, case: Any):
    """returns (status, message): status in held / violation"""
    mod = load_prop(prop)
    if hasattr(mod, "worker_init"):
        mod.worker_init()
    try:
        run_with_watchdog(mod, case, 600)
    except Violation as v:
        return "violation", v
    return "held", None


def _replay_worker(args):
    setup_env()
    setup_jax()
    prop, case = args
    try:
        st, v = replay_case(prop, case)
        if st == "violation":
            return dict(status=st, message=str(v), oracle=v.oracle, site=v.site, bucket=v.bucket())
        return dict(status=st)
    except CaseTimeout:
        return dict(status="timeout")
    except Exception:
        return dict(status="error", message=traceback.format_exc()[-3000:])


# --------------------------------------------------------------------------------------
# process management: one process per shard, results over pipes, dead workers are noticed
# --------------------------------------------------------------------------------------
_CONN = [None]   # the child's end of the pipe: first sightings of a failure are reported before shrinking starts


def _report_partial(failure: dict):
    try:
        if _CONN[0] is not None:
            _CONN[0].send(dict(partial=True, failure=failure))
    except Exception:  # noqa: BLE001
        pass


def _child(fn_name: str, arg, conn):
    _CONN[0] = conn
    try:
        res = globals()[fn_name](arg)
    except BaseException:  # noqa: BLE001
        res = dict(error="worker raised: " + traceback.format_exc()[-3000:], died=True)
    try:
        conn.send(res)
    finally:
        conn.close()


def run_processes(ctx, fn_name: str, args: List[Any], timeout_s: float) -> List[Any]:
    """run fn_name(arg) for every arg in its own spawned process; a process that dies without an answer
    (e.g. killed by the OOM killer) yields {'error': ..., 'died': True} instead of hanging the run"""
    procs = []
    for a in args:
        parent, child = ctx.Pipe(duplex=False)
        p = ctx.Process(target=_child, args=(fn_name, a, child))
        p.start()
        child.close()
        procs.append((p, parent))
    results: List[Any] = [None] * len(args)
    partials: List[List[dict]] = [[] for _ in args]
    t_end = time.time() + timeout_s
    pending = set(range(len(args)))
    while pending:
        for i in list(pending):
            p, conn = procs[i]
            got = False
            try:
                while conn.poll(0.05):
                    msg = conn.recv()
                    if isinstance(msg, dict) and msg.get("partial"):
                        partials[i].append(msg["failure"])
                        continue
                    results[i] = msg
                    got = True
                    break
            except (EOFError, OSError):
                pass
            if got:
                pending.discard(i)
                p.join(10)
            elif not p.is_alive():
                # one last look: the answer may have arrived just before exit
                try:
                    while conn.poll(0.2):
                        msg = conn.recv()
                        if isinstance(msg, dict) and msg.get("partial"):
                            partials[i].append(msg["failure"])
                            continue
                        results[i] = msg
                        got = True
                        break
                except (EOFError, OSError):
                    pass
                if not got:
                    results[i] = dict(error=f"worker process died without a result (exit code {p.exitcode})", died=True, shard=i,
                                      partial_failures=partials[i])
                pending.discard(i)
        if time.time() > t_end:
            for i in pending:
                procs[i][0].kill()
                results[i] = dict(error="worker exceeded the run's wall-clock limit and was killed", died=True, shard=i, partial_failures=partials[i])
            break
    return results


# --------------------------------------------------------------------------------------
# main entry
# --------------------------------------------------------------------------------------
def write_evidence(prop, tier, seed, level, coverage, assumptions, wall, violations):
    ev = dict(property_id=prop, tier=tier, seed=int(seed), level=level, coverage=coverage,
              assumptions=assumptions, wall_s=round(wall, 2), violations=int(violations))
    # structural validation against the parts of EVIDENCE.schema.json that apply
    assert ev["tier"] in ("quick", "thorough")
    cov = ev["coverage"]
    for k in ("evaluations", "distinct_nontrivial", "rule", "samples"):
        assert k in cov, k
    assert isinstance(cov["samples"], list)
    path = os.path.join(OUT_DIR, "evidence", f"{prop}.json")
    os.makedirs(os.path.dirname(path), exist_ok=True)
    tmp = path + ".tmp"
    with open(tmp, "w") as f:
        json.dump(ev, f, indent=1, default=str)
    os.replace(tmp, path)
    return path


def main(argv=None) -> int:
    import argparse

    ap = argparse.ArgumentParser()
    ap.add_argument("prop")
    ap.add_argument("--tier", default=os.environ.get("VERIF_TIER", "quick"), choices=["quick", "thorough"])
    ap.add_argument("--replay", default=None)
    ap.add_argument("--examples", type=int, default=None)
    ap.add_argument("--nproc", type=int, default=NPROC)
    a = ap.parse_args(argv)
    prop = a.prop.upper()
    seed = int(os.environ.get("VERIF_SEED", "1"))
    setup_env()
    t0 = time.time()
    ctx = mp.get_context("spawn")

    if a.replay:
        with open(a.replay) as f:
            data = json.load(f)
        case = data["case"] if isinstance(data, dict) and "case" in data else data
        res = run_processes(ctx, "_replay_worker", [(prop, case)], 1800)[0]
        if res.get("died"):
            res = dict(status="error", message=res["error"])
        if res["status"] == "violation":
            print(res["message"])
            known = [e for e in load_known(prop) if any(region_match(r, res.get("site", {}), res.get("oracle", "")) for r in e.get("regions", []))]
            if known:
                print(f"KNOWN-FINDING: property={prop} {known[0]['id']} {known[0]['what']} (this replay lies inside its region)")
                return 0
            print(f"VIOLATION property={prop} replay={a.replay}")
            return 1
        if res["status"] in ("error", "timeout"):
            print("HARNESS-ERROR during replay:", res.get("message", res["status"]))
            return 2
        print(f"replay held: property={prop} {a.replay}")
        return 0

    mod_name = f"pw_verif.props.{prop.lower()}"
    try:
        mod = importlib.import_module(mod_name)
    except Exception:
        print("HARNESS-ERROR cannot import", mod_name)
        traceback.print_exc()
        return 2

    # 1. known findings: replay every witness
    known = load_known(prop)
    active = []
    known_lines = []
    if known:
        res = run_processes(ctx, "_replay_worker", [(prop, e["witness"]) for e in known], 1800)
        res = [dict(status="error", message=r["error"]) if r.get("died") else r for r in res]
        for e, r in zip(known, res):
            if r["status"] == "violation":
                active.append(e)
                known_lines.append(f"KNOWN-FINDING: property={prop} {e['id']} {e['what']}")
            elif r["status"] == "error":
                print(f"HARNESS-ERROR replaying witness of {e['id']}: {r.get('message')}")
                return 2
            else:
                print(f"note: witness of known finding {e['id']} no longer fails ({r['status']}); it suppresses nothing in this run")

    # 2. generated search
    n_total = a.examples or mod.BUDGET[a.tier]
    nshards = max(1, min(a.nproc, n_total // max(1, getattr(mod, "MIN_PER_SHARD", 20)) or 1))
    per = [n_total // nshards + (1 if i < n_total % nshards else 0) for i in range(nshards)]
    jobs = [dict(prop=prop, tier=a.tier, seed=seed, shard=i, nshards=nshards, n_examples=per[i], active_known=active)
            for i in range(nshards)]
    limit = float(os.environ.get("PW_VERIF_WALL_S", "3000" if a.tier == "quick" else "14400"))
    raw = run_processes(ctx, "worker", jobs, limit)
    results = []
    for i, r in enumerate(raw):
        if r.get("died"):
            # failures the worker had reported before it died (first sighting, not shrunk) still count
            r = dict(shard=i, evaluations=0, nontrivial_keys=[], labels={}, samples=[], failures=list(r.get("partial_failures") or []), known_hits={}, timeouts=0,
                     dup_bucket=0, error=r["error"], wall=0.0)
        results.append(r)

    errors = [r for r in results if r["error"]]
    evaluations = sum(r["evaluations"] for r in results)
    keys = set()
    labels: Counter = Counter()
    known_hits: Counter = Counter()
    samples: List[Any] = []
    failures: Dict[str, dict] = {}
    for r in results:
        keys.update(r["nontrivial_keys"])
        labels.update(r["labels"])
        known_hits.update(r["known_hits"])
        for s in r["samples"]:
            if len(samples) < 6:
                samples.append(s)
        for fl in r["failures"]:
            b = fl["bucket"]
            if b not in failures or len(json.dumps(fl["case"], default=str)) < len(json.dumps(failures[b]["case"], default=str)):
                failures[b] = fl

    replay_paths = []
    for b, fl in sorted(failures.items()):
        d = os.path.join(OUT_DIR, "replays", prop)
        os.makedirs(d, exist_ok=True)
        p = os.path.join(d, case_hash(fl["case"]) + ".json")
        with open(p, "w") as f:
            json.dump(dict(property=prop, bucket=b, message=fl["message"], oracle=fl["oracle"], site=fl["site"], case=fl["case"]), f, indent=1, default=str)
        replay_paths.append((os.path.relpath(p, OUT_DIR), fl))

    wall = time.time() - t0
    coverage = dict(
        evaluations=evaluations,
        distinct_nontrivial=len(keys),
        rule=mod.RULE,
        samples=samples if samples else [fl["case"] for _, fl in replay_paths][:3],
        labels=dict(sorted(labels.items())),
        known_findings_active=[e["id"] for e in active],
        known_hits=dict(known_hits),
        timeouts_inconclusive=sum(r["timeouts"] for r in results),
        duplicate_bucket_failures=sum(r["dup_bucket"] for r in results),
        shards=nshards,
        requested_examples=n_total,
        violation_buckets=sorted(failures),
        exhaustive=False,
    )
    try:
        write_evidence(prop, a.tier, seed, mod.LEVEL, coverage, list(mod.ASSUMPTIONS), wall, len(failures))
    except Exception:
        print("HARNESS-ERROR writing evidence")
        traceback.print_exc()
        return 2

    for ln in known_lines:
        print(ln)
    print(f"{prop} tier={a.tier} seed={seed} evaluations={evaluations} distinct_nontrivial={len(keys)} "
          f"known_hits={dict(known_hits)} timeouts={coverage['timeouts_inconclusive']} wall={wall:.1f}s")
    if failures:
        # a violation with its replay file stands on its own, whatever happened to other shards
        for r in errors:
            print(f"note: shard {r['shard']} did not finish: {str(r['error']).strip().splitlines()[-1][:300]}")
        for p, fl in replay_paths:
            print(f"  {fl['message'][:600]}")
            print(f"VIOLATION property={prop} replay={p}")
        return 1
    if errors:
        for r in errors:
            print(f"HARNESS-ERROR shard {r['shard']}:\n{r['error']}")
        return 2
    if evaluations == 0:
        print("HARNESS-ERROR no case was evaluated")
        return 2
    return 0
