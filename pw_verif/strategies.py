"""Hypothesis strategies: worlds, storage layouts, states, operations. Construction over rejection."""
from __future__ import annotations

import math
from typing import Dict, List

from hypothesis import strategies as st

POL_FIXED = ["I", "X", "Y", "Z", "H", "S", "T", "SX"]
# |x| < 1e-100 is flushed to exactly 0: an angle of 1e-255 leaves amplitudes of 1e-255 whose squares underflow to 0
# in IEEE double, so no density-matrix reference (nor the library's own renormalisation) can represent them
angle = st.floats(-4 * math.pi, 4 * math.pi, allow_nan=False, allow_infinity=False).map(lambda x: 0.0 if abs(x) < 1e-100 else x)
small_c = st.one_of(
    st.builds(lambda r, ph: [r * math.cos(ph), r * math.sin(ph)], st.floats(0.05, 1.0), st.floats(-math.pi, math.pi)),
    st.builds(lambda r, ph: [r * math.cos(ph), r * math.sin(ph)], st.floats(0.05, 1.0), st.floats(-math.pi, math.pi)),
    st.builds(lambda r, ph: [r * math.cos(ph), r * math.sin(ph)], st.floats(0.05, 1.0), st.floats(-math.pi, math.pi)),
    # exactly on the axes (sign functions, branch cuts)
    st.builds(lambda x, sg: [sg * x, 0.0], st.floats(0.05, 1.0), st.sampled_from([-1.0, 1.0])),
    st.builds(lambda y, sg: [0.0, sg * y], st.floats(0.05, 1.0), st.sampled_from([-1.0, 1.0])),
)
seeds = st.integers(0, 10**6)

STATE_CLASSES = ["basis", "product", "pure", "pure", "mixed", "mixed", "cancel", "lowphoton", "nearlypure"]


class Info:
    """static facts about a drawn world, used to construct valid requests"""

    def __init__(self, spec, layout):
        self.spec = spec
        self.layout = layout
        self.subs: List[str] = []
        self.kind: Dict[str, str] = {}
        self.dim: Dict[str, int] = {}
        for i, e in enumerate(spec["envs"]):
            self.subs += [f"e{i}.f", f"e{i}.p"]
            self.kind[f"e{i}.f"] = "fock"
            self.kind[f"e{i}.p"] = "pol"
            self.dim[f"e{i}.f"] = e.get("fdim") or (e.get("fock", 0) + 1)
            self.dim[f"e{i}.p"] = 2
        for i, c in enumerate(spec["customs"]):
            self.subs.append(f"c{i}")
            self.kind[f"c{i}"] = "custom"
            self.dim[f"c{i}"] = c["dim"]
        for i, b in enumerate(spec.get("bare", [])):
            self.subs.append(f"b{i}")
            self.kind[f"b{i}"] = b["kind"]
            self.dim[f"b{i}"] = (b.get("fdim") or (b.get("fock", 0) + 1)) if b["kind"] == "fock" else 2
        self.ce_members: Dict[str, List[str]] = {}
        for i, members in enumerate(spec["ces"]):
            ms = []
            for m in members:
                if m.startswith("e"):
                    ms += [m + ".f", m + ".p"]
                elif m.startswith("ce"):
                    ms += self.ce_members[m]
                else:
                    ms.append(m)
            self.ce_members[f"ce{i}"] = ms
        self.block_of: Dict[str, dict] = {}
        for b in layout:
            for m in b["members"]:
                self.block_of[m] = b

    def storage(self, name) -> str:
        b = self.block_of.get(name)
        if b is None:
            return "own"
        return "own" if b["via"] == "own" else ("env" if b["via"] == "env" else "ps")

    def level(self, name) -> int:
        b = self.block_of.get(name)
        return 0 if b is None else int(b["level"])

    def ces_of(self, name) -> List[str]:
        return [c for c, ms in self.ce_members.items() if name in ms]

    def env_of(self, name):
        return name.split(".")[0] if "." in name else None


@st.composite
def world_and_layout(draw, min_envs=1, max_envs=3, max_customs=2, need_ce=None, fdims=(2, 3, 4), max_joint=600,
                     classes=None, levels=(0, 1, 2), force_fdim=True, partial_ce=False):
    n_env = draw(st.integers(min_envs, max_envs))
    envs = []
    for _ in range(n_env):
        fd = draw(st.sampled_from(list(fdims)))
        envs.append(dict(fdim=fd, fock=draw(st.integers(0, fd - 1)), pol=draw(st.sampled_from(["H", "V", "R", "L"]))))
    n_c = draw(st.integers(0, max_customs))
    customs = []
    for _ in range(n_c):
        d = draw(st.sampled_from([2, 3]))
        customs.append(dict(dim=d, label=draw(st.integers(0, d - 1))))
    # bound the joint dimension
    def joint():
        j = 1
        for e in envs:
            j *= e["fdim"] * 2
        for c in customs:
            j *= c["dim"]
        return j
    while joint() > max_joint:
        if customs:
            customs.pop()
        elif len(envs) > min_envs:
            envs.pop()
        else:
            for e in envs:
                e["fdim"] = 2
                e["fock"] = min(e["fock"], 1)
            break
    units = [f"e{i}" for i in range(len(envs))] + [f"c{i}" for i in range(len(customs))]
    has_ce = need_ce if need_ce is not None else draw(st.sampled_from([True, True, True, False]))
    ces = []
    in_ce: List[str] = []
    if has_ce:
        # one composite over a generated non-empty subset (usually everything); sometimes a second,
        # independent composite envelope over the remaining units
        if (partial_ce or draw(st.integers(0, 3)) == 0) and len(units) > 1:
            k = draw(st.integers(1, len(units) - (1 if partial_ce else 0)))
            in_ce = sorted(draw(st.permutations(units))[:k])
        else:
            in_ce = list(units)
        ces.append(in_ce)
        rest = [u for u in units if u not in in_ce]
        if rest and draw(st.booleans()):
            ces.append(rest)
    spec = dict(envs=envs, customs=customs, ces=ces)
    bare = []
    if draw(st.integers(0, 3)) == 0 and joint() <= max_joint // 4:
        for _ in range(draw(st.integers(1, 2))):
            if draw(st.booleans()):
                fd = draw(st.sampled_from([2, 3]))
                bare.append(dict(kind="fock", fdim=fd, fock=draw(st.integers(0, fd - 1))))
            else:
                bare.append(dict(kind="pol", pol=draw(st.sampled_from(["H", "V", "R", "L"]))))
        spec["bare"] = bare
    cls = st.sampled_from(classes or STATE_CLASSES)
    # ---- layout ----
    layout = []
    env_mode = {}
    for i in range(len(envs)):
        env_mode[f"e{i}"] = draw(st.sampled_from(["own", "own", "FP", "PF"]))
    lv12 = [l for l in levels if l >= 1] or [1]
    for i in range(len(envs)):
        u = f"e{i}"
        if env_mode[u] != "own":
            mem = [u + ".f", u + ".p"] if env_mode[u] == "FP" else [u + ".p", u + ".f"]
            layout.append(dict(members=mem, via="env", level=draw(st.sampled_from(lv12)), state=dict(cls=draw(cls), seed=draw(seeds))))
    for ci, ce_units in enumerate(ces):
        group: Dict[str, int] = {}
        subs_in_ce = []
        for u in ce_units:
            subs_in_ce += [u + ".f", u + ".p"] if u.startswith("e") else [u]
        n_groups = draw(st.sampled_from([0, 1, 1, 2, 2, 3])) if subs_in_ce else 0
        if n_groups:
            for s in subs_in_ce:
                g = draw(st.integers(-1, n_groups - 1))
                if g >= 0:
                    group[s] = g
            # a combined envelope moves as a whole
            for u in ce_units:
                if u.startswith("e") and env_mode[u] != "own":
                    gs = [group.get(u + ".f"), group.get(u + ".p")]
                    g = next((x for x in gs if x is not None), None)
                    if g is not None:
                        group[u + ".f"] = g
                        group[u + ".p"] = g
        for g in range(n_groups):
            mem = [s for s in subs_in_ce if group.get(s) == g]
            if len(mem) >= 1:
                mem = list(draw(st.permutations(mem)))
                layout.append(dict(members=mem, via=f"ce{ci}", level=draw(st.sampled_from(lv12)), state=dict(cls=draw(cls), seed=draw(seeds))))
    placed = {m for b in layout for m in b["members"]}
    all_subs = []
    for i in range(len(envs)):
        all_subs += [f"e{i}.f", f"e{i}.p"]
    all_subs += [f"c{i}" for i in range(len(customs))]
    all_subs += [f"b{i}" for i in range(len(bare))]
    for s in all_subs:
        if s not in placed:
            lvl = draw(st.sampled_from(list(levels)))
            if lvl > 0:
                layout.append(dict(members=[s], via="own", level=lvl, state=dict(cls=draw(cls), seed=draw(seeds))))
    return spec, layout


# ----------------------------------------------------------------------------------------
# operations
# ----------------------------------------------------------------------------------------
def pol_op():
    return st.one_of(
        st.builds(lambda g: dict(type=f"pol:{g}"), st.sampled_from(POL_FIXED)),
        st.builds(lambda g, t: dict(type=f"pol:{g}", params=dict(theta=t)), st.sampled_from(["RX", "RY", "RZ"]), angle),
        st.builds(lambda a, b, c: dict(type="pol:U3", params=dict(phi=a, theta=b, omega=c)), angle, angle, angle),
        st.builds(lambda s, u: dict(type="pol:Custom", useed=s, unitary=u), seeds, st.booleans()),
    )


def fock_op(allow_big=True, allow_nonunitary=False):
    opts = [
        st.just(dict(type="fock:Creation")),
        st.just(dict(type="fock:Annihilation")),
        st.just(dict(type="fock:Identity")),
        st.builds(lambda t: dict(type="fock:PhaseShift", params=dict(phi=t)), angle),
        st.builds(lambda s: dict(type="fock:Custom", useed=s), seeds),
        st.builds(lambda t: dict(type="fock:Expresion", params=dict(phi=t)), angle),
    ]
    if allow_nonunitary:
        # a user operator that is NOT unitary through the non-renormalising Custom type: the state leaves
        # the unit-trace regime (legitimate for C01/C08, excluded by C07's quantifier)
        opts.append(st.builds(lambda s: dict(type="fock:Custom", useed=s, unitary=False), seeds))
    if allow_big:
        opts += [
            st.builds(lambda a: dict(type="fock:Displace", params=dict(alpha=a)), small_c),
            st.builds(lambda z: dict(type="fock:Squeeze", params=dict(zeta=[0.6 * z[0], 0.6 * z[1]])), small_c),
        ]
    return st.one_of(*opts)


def custom_op():
    return st.one_of(
        st.builds(lambda s, u: dict(type="custom:Custom", useed=s, unitary=u), seeds, st.booleans()),
        st.builds(lambda s, u: dict(type="custom:Expresion", useed=s, unitary=u), seeds, st.booleans()),
    )


NONUNITARY_FOCK = [False]   # switched on by the property modules whose statement covers such operators


def op_for_kind(kind: str, allow_big=True):
    return {"pol": pol_op(), "fock": fock_op(allow_big, NONUNITARY_FOCK[0]), "custom": custom_op()}[kind]


# ----------------------------------------------------------------------------------------
# program steps (drawn from static knowledge of the world; the interpreter skips steps that the
# dynamic state makes inapplicable, e.g. a target destroyed by an earlier measurement)
# ----------------------------------------------------------------------------------------
def comp_op(info: Info, members: List[str]):
    """composite operation + ordered operands among `members` (all in one composite envelope)"""
    pols = [m for m in members if info.kind[m] == "pol"]
    focks = [m for m in members if info.kind[m] == "fock"]
    opts = []
    if len(pols) >= 2:
        opts.append(st.builds(lambda g, ops: dict(op=dict(type=f"comp:{g}"), targets=list(ops[:2])),
                              st.sampled_from(["CX", "CZ", "SWAP"]), st.permutations(pols)))
    if len(pols) >= 3:
        opts.append(st.builds(lambda ops: dict(op=dict(type="comp:CSWAP"), targets=list(ops[:3])), st.permutations(pols)))
    if len(focks) >= 2:
        opts.append(st.builds(lambda e, ops: dict(op=dict(type="comp:BS", params=dict(eta=e)), targets=list(ops[:2])), angle, st.permutations(focks)))
    if len(members) >= 2:
        def mk(ops, k, sd, ph):
            ops = list(ops[:k])
            facs = []
            for i, o in enumerate(ops):
                if info.kind[o] == "pol":
                    facs.append(dict(kind="pol", useed=sd + i))
                elif info.kind[o] == "custom":
                    facs.append(dict(kind="custom", useed=sd + i))
                else:
                    facs.append(dict(kind="fock", phi=ph + i))
            return dict(op=dict(type="comp:Expression", factors=facs), targets=ops)
        opts.append(st.builds(mk, st.permutations(members), st.integers(2, min(3, len(members))), seeds, angle))
    if not opts:
        return None
    return st.one_of(*opts)


@st.composite
def step(draw, info: Info, kinds, focus=None):
    k = draw(st.sampled_from(kinds))
    subs = info.subs
    if focus:
        # long histories on ONE envelope matter: its members are drawn four times as often
        subs = list(subs) + [f for f in focus if f in info.subs] * 3
    ce = draw(st.sampled_from(sorted(info.ce_members))) if info.ce_members else None
    mem = info.ce_members.get(ce, []) if ce else []

    def entry_for(ts):
        es = []
        if len(ts) == 1:
            es.append("state")
        envs = {info.env_of(t) for t in ts}
        if len(envs) == 1 and None not in envs and len(ts) <= 2:
            es.append("env")
        if ce and all(t in mem for t in ts):
            es += [ce, ce]
        return draw(st.sampled_from(es)) if es else None

    if k == "op":
        t = draw(st.sampled_from(subs))
        e = entry_for([t])
        if e == "env" and info.kind[t] == "custom":
            e = "state"
        return dict(k="op", entry=e, targets=[t], op=draw(op_for_kind(info.kind[t])))
    if k in ("bs", "phase"):
        focks = [s for s in mem if info.kind[s] == "fock"] if ce else []
        if k == "bs" and len(focks) >= 2:
            ops = draw(st.permutations(focks))
            return dict(k="op", entry=ce, targets=list(ops[:2]), op=dict(type="comp:BS", params=dict(eta=draw(angle))))
        allf = [s for s in subs if info.kind[s] == "fock"]
        t = draw(st.sampled_from(allf))
        return dict(k="op", entry=entry_for([t]), targets=[t], op=dict(type="fock:PhaseShift", params=dict(phi=draw(angle))))
    if k == "bigop":
        focks = [s for s in subs if info.kind[s] == "fock"]
        t = draw(st.sampled_from(focks))
        e = entry_for([t])
        op = draw(st.one_of(
            st.builds(lambda a: dict(type="fock:Displace", params=dict(alpha=a)), small_c),
            st.builds(lambda z: dict(type="fock:Squeeze", params=dict(zeta=[0.6 * z[0], 0.6 * z[1]])), small_c),
            st.builds(lambda t_: dict(type="fock:Expresion", params=dict(phi=t_)), angle),
            st.just(dict(type="fock:Creation")), st.just(dict(type="fock:Annihilation")),
            st.builds(lambda t_: dict(type="fock:PhaseShift", params=dict(phi=t_)), angle)))
        return dict(k="op", entry=e, targets=[t], op=op)
    if k == "comp":
        s_ = comp_op(info, mem) if ce else None
        if s_ is None:
            t = draw(st.sampled_from(subs))
            return dict(k="op", entry="state", targets=[t], op=draw(op_for_kind(info.kind[t])))
        c = draw(s_)
        return dict(k="op", entry=ce, targets=c["targets"], op=c["op"])
    if k == "newce":
        units_all = [f"e{i}" for i in range(len(info.spec["envs"]))] + [f"c{i}" for i in range(len(info.spec["customs"]))]
        # handles created by earlier newce steps are named ce<n> in creation order; the interpreter skips unknown ones
        pool = sorted(info.ce_members) + [f"ce{len(info.ce_members) + j}" for j in range(2)] + units_all
        n = draw(st.integers(1, min(3, len(pool))))
        return dict(k="struct", call="new_ce", members=list(draw(st.permutations(pool))[:n]))
    if k == "struct_rep":
        calls = ["expand", "contract", "contract"]
        if info.spec["envs"]:
            calls += ["env_expand", "env_contract"]
        if ce:
            calls += ["ce_expand"]
        call = draw(st.sampled_from(calls))
        if call in ("expand", "contract"):
            d = dict(k="struct", call=call, sub=draw(st.sampled_from(subs)))
            if call == "contract":
                d["final"] = draw(st.sampled_from([0, 1]))
            return d
        if call.startswith("env_"):
            return dict(k="struct", call=call, env=f"e{draw(st.integers(0, len(info.spec['envs']) - 1))}")
        n = draw(st.integers(1, min(3, len(mem))))
        return dict(k="struct", call=call, ce=ce, members=list(draw(st.permutations(mem))[:n]))
    if k == "struct":
        calls = ["expand", "contract"]
        if info.spec["envs"]:
            calls += ["env_combine", "env_reorder", "env_expand", "env_contract"]
        if ce:
            calls += ["ce_combine", "ce_combine", "ce_reorder", "ce_reorder", "ce_expand", "new_ce"]
        call = draw(st.sampled_from(calls))
        if call in ("expand", "contract"):
            d = dict(k="struct", call=call, sub=draw(st.sampled_from(subs)))
            if call == "contract":
                d["final"] = draw(st.sampled_from([0, 1]))
            return d
        if call.startswith("env_"):
            e = f"e{draw(st.integers(0, len(info.spec['envs']) - 1))}"
            if focus and draw(st.integers(0, 2)) > 0:
                e = focus[0].split(".")[0]
            d = dict(k="struct", call=call, env=e)
            if call == "env_reorder":
                order = draw(st.permutations([e + ".f", e + ".p"]))
                d["order"] = list(order[: draw(st.integers(1, 2))])
            return d
        if call == "new_ce":
            units = info.spec["ces"][0]
            extra = [u for u in ([f"e{i}" for i in range(len(info.spec["envs"]))] + [f"c{i}" for i in range(len(info.spec["customs"]))]) if u not in units]
            pool = sorted(info.ce_members) + extra + list(units)
            n = draw(st.integers(1, min(3, len(pool))))
            return dict(k="struct", call="new_ce", members=list(draw(st.permutations(pool))[:n]))
        n = draw(st.integers(1, min(4, len(mem))))
        return dict(k="struct", call=call, ce=ce, members=list(draw(st.permutations(mem))[:n]))
    if k == "measure_d":
        t = draw(st.sampled_from(subs))
        es = ["state"] + (["env"] if info.env_of(t) else []) + ([ce] if ce and t in mem else [])
        return dict(k="measure", entry=draw(st.sampled_from(es)), targets=[t], sep=draw(st.booleans()), destructive=True,
                    script=draw(st.lists(st.integers(0, 5), min_size=0, max_size=3)))
    if k in ("trace_out", "kraus", "measure", "povm"):
        pool = mem if (ce and draw(st.integers(0, 3)) > 0) else subs
        maxn = {"trace_out": 3, "kraus": 3, "measure": 4, "povm": 3}[k]
        n = draw(st.integers(1, min(maxn, len(pool))))
        ts = list(dict.fromkeys(draw(st.permutations(pool))))[:n]
        e = entry_for(ts)
        if e is None:
            ts = ts[:1]
            e = entry_for(ts)
        d = dict(k=k, entry=e, targets=ts)
        if k == "kraus":
            d.update(kseed=draw(seeds), nops=draw(st.integers(1, 4)), unitary=draw(st.integers(0, 4)) == 0)
        if k == "measure":
            d.update(sep=draw(st.booleans()), destructive=draw(st.booleans()), script=draw(st.lists(st.integers(0, 5), min_size=0, max_size=6)))
        if k == "povm":
            d.update(pseed=draw(seeds), nops=draw(st.integers(2, 4)), projective=draw(st.booleans()), destructive=draw(st.booleans()),
                     partial=draw(st.booleans()), unsharp=(draw(st.floats(-8, -2)) if draw(st.integers(0, 4)) == 0 else None),
                     script=draw(st.lists(st.integers(0, 5), min_size=0, max_size=4)))
        return d
    if k == "resize":
        focks = [s for s in subs if info.kind[s] == "fock"]
        t = draw(st.sampled_from(focks))
        e = entry_for([t])
        return dict(k="resize", entry=e, target=t, n=draw(st.integers(0, 7)))
    if k == "set_contraction":
        return dict(k="set_contraction", value=draw(st.booleans()))
    raise ValueError(k)


@st.composite
def program_case(draw, kinds, max_steps=4, world_kwargs=None, min_steps=1):
    spec, layout = draw(world_and_layout(**(world_kwargs or {})))
    info = Info(spec, layout)
    n = draw(st.integers(min_steps, max_steps))
    steps = []
    focus = None
    if spec["envs"] and draw(st.booleans()):
        fe = draw(st.integers(0, len(spec["envs"]) - 1))
        focus = [f"e{fe}.f", f"e{fe}.p"]
    for _ in range(n):
        s_ = draw(step(info, kinds, focus))
        # histories matter: often address the subsystem the previous step addressed again
        if steps and s_["k"] == "op" and steps[-1]["k"] == "op" and len(s_["targets"]) == 1 and len(steps[-1]["targets"]) == 1 and draw(st.booleans()):
            prev = steps[-1]["targets"][0]
            if info.kind[prev] == info.kind[s_["targets"][0]]:
                s_ = dict(s_, targets=[prev], entry=steps[-1]["entry"] if draw(st.booleans()) else "state")
        if s_["k"] == "op" and draw(st.integers(0, 3)) == 0:
            # users keep Operation objects and apply them again: same description as an earlier step, same object
            kinds_ = [info.kind[t] for t in s_["targets"]]
            earlier = [e for e in steps if e["k"] == "op" and [info.kind[t] for t in e["targets"]] == kinds_]
            if earlier:
                e = draw(st.sampled_from(earlier))
                s_ = dict(s_, op=e["op"], reuse=True)
                if len(e["targets"]) > 1 and draw(st.booleans()):
                    # ... on the same operands in another order
                    s_["targets"] = list(draw(st.permutations(e["targets"])))
                    s_["entry"] = e["entry"]
        steps.append(s_)
    return dict(spec=spec, layout=layout, contraction=draw(st.booleans()), steps=steps)


# ----------------------------------------------------------------------------------------
# "life cycle" programs: one envelope is prepared, absorbed into a composite product space,
# released again (non-destructive measurement / custom-state measurement), and re-used. Defects
# that depend on flags or caches left behind by an earlier phase need exactly such histories.
# ----------------------------------------------------------------------------------------
@st.composite
def lifecycle_case(draw, tail_kinds=("op", "kraus", "measure", "struct", "trace_out", "comp", "resize"), max_tail=3):
    n_env = draw(st.integers(2, 3))
    envs = []
    for _ in range(n_env):
        fd = draw(st.sampled_from([2, 3]))
        envs.append(dict(fdim=fd, fock=draw(st.integers(0, fd - 1)), pol=draw(st.sampled_from(["H", "V", "R", "L"]))))
    customs = [dict(dim=2, label=draw(st.integers(0, 1))) for _ in range(draw(st.integers(0, 2)))]
    units = [f"e{i}" for i in range(n_env)] + [f"c{i}" for i in range(len(customs))]
    spec = dict(envs=envs, customs=customs, ces=[units])
    layout = []
    # optional pre-existing blocks among the *other* subsystems
    if draw(st.booleans()):
        others = [f"e{i}.{x}" for i in range(1, n_env) for x in "fp"] + [f"c{i}" for i in range(len(customs))]
        k = draw(st.integers(2, min(3, len(others))))
        layout.append(dict(members=list(draw(st.permutations(others))[:k]), via="ce0", level=draw(st.sampled_from([1, 2])),
                           state=dict(cls=draw(st.sampled_from(["pure", "mixed", "product", "basis"])), seed=draw(seeds))))
    info = Info(spec, layout)
    f, p_, e = "e0.f", "e0.p", "e0"
    others = [s_ for s_ in info.subs if s_ not in (f, p_)]
    steps = []
    # phase 1: prepare the envelope
    prep = draw(st.sampled_from(["none", "combine", "combine-expand", "combine-flip", "combine-expand-flip", "ops"]))
    if prep == "ops":
        steps.append(dict(k="op", entry=draw(st.sampled_from(["state", "env", "ce0"])), targets=[p_], op=draw(pol_op())))
        steps.append(dict(k="op", entry=draw(st.sampled_from(["state", "env", "ce0"])), targets=[f], op=draw(fock_op(allow_big=False))))
    if prep.startswith("combine"):
        steps.append(dict(k="struct", call="env_combine", env=e))
        if "expand" in prep:
            steps.append(dict(k="struct", call="env_expand", env=e))
        if "flip" in prep:
            steps.append(dict(k="struct", call="env_reorder", env=e, order=[p_, f]))
    # phase 2: absorb into a composite product space
    partner = draw(st.sampled_from(others))
    absorb = draw(st.sampled_from(["ce_combine", "comp", "kraus", "ce_reorder"]))
    member = draw(st.sampled_from([f, p_]))
    if absorb == "comp" and info.kind[partner] == info.kind[member] == "pol":
        steps.append(dict(k="op", entry="ce0", targets=list(draw(st.permutations([member, partner]))), op=dict(type="comp:" + draw(st.sampled_from(["CX", "CZ", "SWAP"])))))
    elif absorb == "comp" and info.kind[partner] == info.kind[member] == "fock":
        steps.append(dict(k="op", entry="ce0", targets=list(draw(st.permutations([member, partner]))), op=dict(type="comp:BS", params=dict(eta=draw(angle)))))
    elif absorb == "kraus":
        steps.append(dict(k="kraus", entry="ce0", targets=list(draw(st.permutations([member, partner]))), kseed=draw(seeds), nops=draw(st.integers(1, 3)), unitary=False))
    else:
        steps.append(dict(k="struct", call=absorb if absorb.startswith("ce_") else "ce_combine", ce="ce0", members=list(draw(st.permutations([member, partner])))))
    if draw(st.booleans()):
        steps.append(dict(k="struct", call="ce_expand", ce="ce0", members=[member]))
    # phase 3: release without destroying
    rel = draw(st.sampled_from(["measure-both", "measure-both", "measure-one", "measure-partner", "none"]))
    if rel == "measure-both":
        steps.append(dict(k="measure", entry=draw(st.sampled_from(["ce0", "state"])), targets=[draw(st.sampled_from([f, p_]))], sep=False, destructive=False,
                          script=draw(st.lists(st.integers(0, 5), max_size=3))))
    elif rel == "measure-one":
        steps.append(dict(k="measure", entry=draw(st.sampled_from(["ce0", "state"])), targets=[draw(st.sampled_from([f, p_]))], sep=True, destructive=draw(st.booleans()),
                          script=draw(st.lists(st.integers(0, 5), max_size=3))))
    elif rel == "measure-partner":
        steps.append(dict(k="measure", entry="ce0", targets=[partner], sep=True, destructive=False, script=draw(st.lists(st.integers(0, 5), max_size=3))))
    # phase 4: re-use
    for _ in range(draw(st.integers(1, 3))):
        reuse = draw(st.sampled_from(["env_combine", "env_kraus_one", "env_kraus_both", "env_trace_both", "ce_multi", "env_op", "resize", "env_povm", "ce_kraus_mix", "remeasure"]))
        other = draw(st.sampled_from(others))
        if reuse == "env_combine":
            steps.append(dict(k="struct", call="env_combine", env=e))
        elif reuse == "env_kraus_one":
            steps.append(dict(k="kraus", entry="env", targets=[draw(st.sampled_from([f, p_]))], kseed=draw(seeds), nops=draw(st.integers(1, 3)), unitary=False))
        elif reuse == "env_kraus_both":
            steps.append(dict(k="kraus", entry="env", targets=list(draw(st.permutations([f, p_]))), kseed=draw(seeds), nops=draw(st.integers(1, 3)), unitary=False))
        elif reuse == "env_trace_both":
            steps.append(dict(k="trace_out", entry="env", targets=list(draw(st.permutations([f, p_])))))
        elif reuse == "ce_multi":
            steps.append(dict(k=draw(st.sampled_from(["kraus", "trace_out"])), entry="ce0", targets=list(draw(st.permutations([draw(st.sampled_from([f, p_])), other]))),
                              kseed=draw(seeds), nops=2, unitary=False))
        elif reuse == "env_op":
            t = draw(st.sampled_from([f, p_]))
            steps.append(dict(k="op", entry=draw(st.sampled_from(["env", "state", "ce0"])), targets=[t], op=draw(op_for_kind(info.kind[t], allow_big=False))))
        elif reuse == "resize":
            steps.append(dict(k="resize", entry=draw(st.sampled_from(["state", "env", "ce0"])), target=f, n=draw(st.integers(1, 5))))
        elif reuse == "env_povm":
            steps.append(dict(k="povm", entry=draw(st.sampled_from(["env", "state", "ce0"])), targets=[draw(st.sampled_from([f, p_]))], pseed=draw(seeds), nops=2,
                              projective=draw(st.booleans()), destructive=False, partial=True, script=draw(st.lists(st.integers(0, 5), max_size=2))))
        elif reuse == "ce_kraus_mix":
            steps.append(dict(k="kraus", entry="ce0", targets=[draw(st.sampled_from([f, p_]))], kseed=draw(seeds), nops=2, unitary=False))
        else:
            steps.append(dict(k="measure", entry=draw(st.sampled_from(["state", "env", "ce0"])), targets=[draw(st.sampled_from([f, p_]))], sep=draw(st.booleans()), destructive=False,
                              script=draw(st.lists(st.integers(0, 5), max_size=2))))
    for _ in range(draw(st.integers(0, max_tail))):
        steps.append(draw(step(info, list(tail_kinds), [f, p_])))
    return dict(spec=spec, layout=layout, contraction=draw(st.booleans()), steps=steps, family="lifecycle")


# ----------------------------------------------------------------------------------------
# "survivor" programs: a composite product space of 3-5 members loses some of them (measurement,
# destructive POVM) and the members that stay are used straight afterwards. Defects in what a
# reducing call leaves behind (positions, dimensions, flags) only show in the follow-up call.
# ----------------------------------------------------------------------------------------
@st.composite
def survivor_case(draw, touches=("resize", "fockop", "op", "measure", "kraus", "trace_out", "reorder", "povm", "multi", "multi"), max_touch=3, finals=()):
    n_env = draw(st.integers(2, 3))
    envs = []
    same = draw(st.sampled_from([0, 0, 2, 3]))   # equal dimensions everywhere: a call acting on the wrong axis still fits
    for _ in range(n_env):
        fd = same or draw(st.sampled_from([2, 3, 4]))
        envs.append(dict(fdim=fd, fock=draw(st.integers(0, fd - 1)), pol=draw(st.sampled_from(["H", "V", "R", "L"]))))
    customs = [dict(dim=same or draw(st.sampled_from([2, 3])), label=0) for _ in range(draw(st.integers(0, 2)))]
    units = [f"e{i}" for i in range(n_env)] + [f"c{i}" for i in range(len(customs))]
    spec = dict(envs=envs, customs=customs, ces=[units])
    all_subs = [f"e{i}.{x}" for i in range(n_env) for x in "fp"] + [f"c{i}" for i in range(len(customs))]
    k = draw(st.integers(3, min(5, len(all_subs))))
    members = list(draw(st.permutations(all_subs))[:k])
    layout = [dict(members=members, via="ce0", level=draw(st.sampled_from([1, 2])),
                   state=dict(cls=draw(st.sampled_from(["pure", "mixed", "product", "basis", "lowphoton"])), seed=draw(seeds)))]
    rest = [s_ for s_ in all_subs if s_ not in members]
    if len(rest) >= 2 and draw(st.booleans()):
        # a second product space next to it
        layout.append(dict(members=list(draw(st.permutations(rest))[:2]), via="ce0", level=draw(st.sampled_from([1, 2])),
                           state=dict(cls=draw(st.sampled_from(["pure", "mixed", "product"])), seed=draw(seeds))))
    info = Info(spec, layout)
    steps = []
    # the reducing call: mostly on a member stored in front of others
    nred = draw(st.integers(1, 2))
    for _ in range(nred):
        t = members[0] if draw(st.booleans()) else draw(st.sampled_from(members[:-1]))
        how = draw(st.sampled_from(["measure", "measure", "measure", "povm"]))
        if how == "measure":
            ts = [t]
            if draw(st.integers(0, 2)) == 0:
                # several members in one call, in generated order (custom states before / after Fock and polarization)
                ts = list(dict.fromkeys([t] + list(draw(st.permutations(members))[: draw(st.integers(1, 2))])))
                ts = list(draw(st.permutations(ts)))
            steps.append(dict(k="measure", entry=draw(st.sampled_from(["ce0", "ce0", "state"])) if len(ts) == 1 else "ce0", targets=ts, sep=draw(st.sampled_from([True, True, False])),
                              destructive=draw(st.booleans()), script=draw(st.lists(st.integers(0, 5), max_size=3))))
        else:
            steps.append(dict(k="povm", entry=draw(st.sampled_from(["ce0", "state"])), targets=[t], pseed=draw(seeds), nops=2, projective=draw(st.booleans()),
                              destructive=draw(st.booleans()), partial=draw(st.booleans()), unsharp=None, script=draw(st.lists(st.integers(0, 5), max_size=2))))
    ntouch = draw(st.integers(1, max_touch))
    plan = [draw(st.sampled_from(list(touches))) for _ in range(ntouch)] + [draw(st.sampled_from(list(finals))) for _ in range(draw(st.integers(1, 2)) if finals else 0)]
    for how in plan:
        t = draw(st.sampled_from(members[1:] * 2 + all_subs))
        if how in ("resize", "fockop"):
            focks = [m for m in members[1:] if info.kind[m] == "fock"] or [s_ for s_ in all_subs if info.kind[s_] == "fock"]
            t = draw(st.sampled_from(focks))
            if how == "resize":
                steps.append(dict(k="resize", entry=draw(st.sampled_from(["state", "ce0", "ce0"])), target=t, n=draw(st.integers(1, 7))))
            else:
                steps.append(dict(k="op", entry=draw(st.sampled_from(["state", "ce0"])), targets=[t], op=draw(fock_op(allow_big=False))))
        elif how == "op":
            steps.append(dict(k="op", entry=draw(st.sampled_from(["state", "ce0"])), targets=[t], op=draw(op_for_kind(info.kind[t], allow_big=False))))
        elif how == "measure":
            steps.append(dict(k="measure", entry=draw(st.sampled_from(["state", "ce0"])), targets=[t], sep=draw(st.booleans()), destructive=draw(st.booleans()),
                              script=draw(st.lists(st.integers(0, 5), max_size=3))))
        elif how == "kraus":
            steps.append(dict(k="kraus", entry=draw(st.sampled_from(["state", "ce0"])), targets=[t], kseed=draw(seeds), nops=draw(st.integers(1, 3)), unitary=False))
        elif how == "trace_out":
            n = draw(st.integers(1, 2))
            ts = list(dict.fromkeys(draw(st.permutations(members))))[:n]
            steps.append(dict(k="trace_out", entry="ce0", targets=ts))
        elif how == "multi":
            # a multi-subsystem action through the composite: a member (often a measured one that stayed usable)
            # together with a subsystem stored elsewhere
            a_ = draw(st.sampled_from(members))
            b_ = draw(st.sampled_from([s_ for s_ in all_subs if s_ != a_]))
            steps.append(dict(k=draw(st.sampled_from(["kraus", "kraus", "trace_out", "povm"])), entry="ce0", targets=list(draw(st.permutations([a_, b_]))),
                              kseed=draw(seeds), nops=2, unitary=False, pseed=draw(seeds), projective=draw(st.booleans()), destructive=False, partial=True,
                              unsharp=None, script=draw(st.lists(st.integers(0, 5), max_size=2))))
        elif how == "povm":
            steps.append(dict(k="povm", entry=draw(st.sampled_from(["ce0", "state"])), targets=[t], pseed=draw(seeds), nops=2, projective=draw(st.booleans()),
                              destructive=draw(st.booleans()), partial=draw(st.booleans()), unsharp=(draw(st.floats(-8, -2)) if draw(st.integers(0, 3)) == 0 else None),
                              script=draw(st.lists(st.integers(0, 5), max_size=2))))
        else:
            n = draw(st.integers(1, len(members)))
            steps.append(dict(k="struct", call=draw(st.sampled_from(["ce_reorder", "ce_combine"])), ce="ce0", members=list(draw(st.permutations(members))[:n])))
    return dict(spec=spec, layout=layout, contraction=draw(st.booleans()), steps=steps, family="survivor")
