"""
Worlds: the objects a generated program creates, addressed by symbolic names, plus the
preparation of a storage layout holding arbitrary (complex, entangled, mixed) states.

names:  envelopes "e0".., their members "e0.f"/"e0.p", custom states "c0".., composite
        envelope handles "ce0"...
"""
from __future__ import annotations

import math
from typing import Any, Dict, List, Tuple

import numpy as np

from pw_verif import ref


def reset_library_globals(seed: int = 0, contraction: bool = True) -> None:
    """emulate a fresh process: clear the class-level registries and per-type mutable fields"""
    from photon_weave.operation import CompositeOperationType
    from photon_weave.photon_weave import Config
    from photon_weave.state.composite_envelope import CompositeEnvelope

    CompositeEnvelope._containers.clear()
    CompositeEnvelope._instances.clear()
    CompositeOperationType.Expression.expected_base_state_types = []
    C = Config()
    C.set_seed(int(seed))
    C.set_contraction(bool(contraction))


class World:
    def __init__(self, spec: dict):
        from photon_weave.state.composite_envelope import CompositeEnvelope
        from photon_weave.state.custom_state import CustomState
        from photon_weave.state.envelope import Envelope
        from photon_weave.state.polarization import PolarizationLabel

        self.spec = spec
        self.envs: Dict[str, Any] = {}
        self.customs: Dict[str, Any] = {}
        self.ces: Dict[str, Any] = {}
        self.subs: List[Tuple[str, Any]] = []
        self.kind: Dict[str, str] = {}
        self.obj: Dict[str, Any] = {}
        self.env_of: Dict[str, str] = {}
        self.block_cls: Dict[str, str] = {}   # state class placed by prepare() (site descriptor only)
        self.ce_groups: List[set] = []        # sets of composite handles that were merged with each other
        for i, e in enumerate(spec.get("envs", [])):
            env = Envelope()
            name = f"e{i}"
            self.envs[name] = env
            if e.get("fdim"):
                env.fock.dimensions = int(e["fdim"])
            if e.get("fock", 0):
                env.fock.state = int(e["fock"])
            if e.get("pol", "H") != "H":
                env.polarization.state = PolarizationLabel(e["pol"])
            for suffix, s, k in ((".f", env.fock, "fock"), (".p", env.polarization, "pol")):
                self.subs.append((name + suffix, s))
                self.kind[name + suffix] = k
                self.obj[name + suffix] = s
                self.env_of[name + suffix] = name
        for i, d in enumerate(spec.get("customs", [])):
            c = CustomState(int(d["dim"]) if isinstance(d, dict) else int(d))
            lab = d.get("label", 0) if isinstance(d, dict) else 0
            if lab:
                c.state = int(lab)
            name = f"c{i}"
            self.customs[name] = c
            self.subs.append((name, c))
            self.kind[name] = "custom"
            self.obj[name] = c
        # bare subsystems that belong to no envelope (only their own entry point exists)
        from photon_weave.state.fock import Fock
        from photon_weave.state.polarization import Polarization

        for i, b in enumerate(spec.get("bare", [])):
            name = f"b{i}"
            if b["kind"] == "fock":
                o = Fock()
                if b.get("fdim"):
                    o.dimensions = int(b["fdim"])
                if b.get("fock", 0):
                    o.state = int(b["fock"])
            else:
                o = Polarization(PolarizationLabel(b.get("pol", "H")))
            self.bare = getattr(self, "bare", {})
            self.bare[name] = o
            self.subs.append((name, o))
            self.kind[name] = b["kind"]
            self.obj[name] = o
        for i, members in enumerate(spec.get("ces", [])):
            self.new_ce(members)

    # -- helpers -----------------------------------------------------------------------
    def new_ce(self, members: List[str]) -> str:
        from photon_weave.state.composite_envelope import CompositeEnvelope

        args = []
        for m in members:
            if m in self.envs:
                args.append(self.envs[m])
            elif m in self.customs:
                args.append(self.customs[m])
            else:
                args.append(self.ces[m])
        name = f"ce{len(self.ces)}"
        # handles that this construction merges: those given, and those owning a given envelope
        merged = {m for m in members if m in self.ces}
        for m in members:
            if m in self.envs:
                for cname in self.ces:
                    if any(e is self.envs[m] for e in self.ces[cname].envelopes):
                        merged.add(cname)
        self.ces[name] = CompositeEnvelope(*args)
        group = {name} | merged
        for g in list(self.ce_groups):
            if g & group:
                group |= g
                self.ce_groups.remove(g)
        self.ce_groups.append(group)
        return name

    def partner(self, name: str):
        if name not in self.env_of:
            return None
        e = self.env_of[name]
        return e + (".p" if name.endswith(".f") else ".f")

    def ce_members(self, cname: str) -> List[str]:
        """subsystem names registered in the container of composite handle cname"""
        ids = {id(s): n for n, s in self.subs}
        return [ids[id(s)] for s in self.ces[cname].state_objs if id(s) in ids]

    def ce_of_sub(self, name: str):
        """names of composite handles whose container lists this subsystem"""
        out = []
        for cname in self.ces:
            if name in self.ce_members(cname):
                out.append(cname)
        return out

    def dim(self, name: str) -> int:
        return int(self.obj[name].dimensions)


# ----------------------------------------------------------------------------------------
# state generation (pure function of the JSON state description)
# ----------------------------------------------------------------------------------------
def gen_state(desc: dict, dims: List[int], level: int, kinds: List[str]):
    """returns ('vector', v) or ('matrix', rho) over tensor factors `dims`.
    desc = {"cls": basis|product|pure|mixed|cancel|lowphoton, "seed": int}
    Fock factors keep population off the top level where the class allows (headroom is not
    required by the library, it resizes on demand)."""
    rng = np.random.default_rng(int(desc.get("seed", 0)) + 7919 * len(dims))
    D = int(np.prod(dims))
    cls = desc.get("cls", "pure")
    if cls in ("mixed", "nearlypure") and level < 2:
        cls = "pure"

    def local_pure(d, kind):
        v = ref.rand_pure(rng, d)
        return v

    if cls == "basis0":
        v = np.zeros(D, complex)
        v[0] = 1
    elif cls == "basis":
        v = np.ones(1, complex)
        for d in dims:
            e = np.zeros(d, complex)
            e[int(rng.integers(0, d))] = 1
            v = np.kron(v, e)
    elif cls == "product":
        v = np.ones(1, complex)
        for d, k in zip(dims, kinds):
            v = np.kron(v, local_pure(d, k))
    elif cls == "cancel":
        # first factor in a basis state, the others in states whose amplitudes sum to zero
        v = np.ones(1, complex)
        for i, d in enumerate(dims):
            if i == 0 and len(dims) > 1:
                e = np.zeros(d, complex)
                e[int(rng.integers(0, d))] = 1
            else:
                e = np.zeros(d, complex)
                e[0] = 1 / math.sqrt(2)
                e[d - 1 if d > 1 else 0] += -1 / math.sqrt(2) if d > 1 else 0
                if d == 1:
                    e[0] = 1
            v = np.kron(v, e)
    elif cls == "lowphoton":
        # entangled, but Fock factors restricted to <= 1 photon (keeps beam-splitter cutoffs small)
        t = rng.normal(size=dims) + 1j * rng.normal(size=dims)
        for ax, (d, k) in enumerate(zip(dims, kinds)):
            if k == "fock" and d > 2:
                sl = [slice(None)] * len(dims)
                sl[ax] = slice(2, None)
                t[tuple(sl)] = 0
        v = t.reshape(-1)
        v = v / np.linalg.norm(v)
    elif cls == "nearlypure":
        # (1-eps)|psi><psi| + eps*sigma with eps log-uniform in [1e-8, 1e-4]: straddles the library's
        # documented purity tolerance (1e-6) for automatic contraction
        psi = ref.rand_pure(rng, D)
        eps = 10.0 ** (-8.0 + 4.0 * float(rng.random()))
        sigma = ref.rand_mixed(rng, D, min(D, 3))
        rho = (1 - eps) * np.outer(psi, psi.conj()) + eps * sigma
        return "matrix", rho / np.trace(rho).real
    elif cls == "mixed":
        rank = int(desc.get("rank", 0)) or int(rng.integers(2, max(3, min(D, 4) + 1)))
        rho = ref.rand_mixed(rng, D, rank)
        return "matrix", rho
    else:  # pure: Haar random over the whole block (entangled when len(dims) > 1)
        v = ref.rand_pure(rng, D)
    v = v / np.linalg.norm(v)
    if level >= 2:
        return "matrix", np.outer(v, v.conj())
    return "vector", v.reshape(-1, 1)


def prepare(world: World, layout: List[dict]) -> None:
    """Bring the world into the requested storage layout through public calls, then place the
    generated state into each block (same shape, same level as the library created)."""
    import jax.numpy as jnp

    for blk in layout:
        members = blk["members"]
        level = int(blk["level"])
        for m in members:
            world.block_cls[m] = blk.get("state", {}).get("cls", "label") if not (blk["via"] == "own" and level == 0) else "label"
        via = blk["via"]
        objs = [world.obj[m] for m in members]
        kinds = [world.kind[m] for m in members]
        if via == "own":
            s = objs[0]
            if level == 0:
                continue
            while int(s.expansion_level) < level:
                s.expand()
            dims = [int(s.dimensions)]
            rep, arr = gen_state(blk["state"], dims, level, kinds)
            s.state = jnp.array(arr)
        elif via == "env":
            env = world.envs[world.env_of[members[0]]]
            env.combine()
            if level == 2:
                env.expand()
            env.reorder(*objs)
            dims = [int(o.dimensions) for o in objs]
            rep, arr = gen_state(blk["state"], dims, level, kinds)
            assert env.state.shape == arr.shape, (env.state.shape, arr.shape)
            env.state = jnp.array(arr)
        else:
            ce = world.ces[via]
            ce.combine(*objs)
            ps = [p for p in ce.states if any(o is so for so in p.state_objs for o in objs)][0]
            if level == 2 and int(ps.expansion_level) < 2:
                ce.expand(objs[0])
            ce.reorder(*objs)
            dims = [int(so.dimensions) for so in ps.state_objs]
            knd = [world.kind[n] for n in [_name_of(world, so) for so in ps.state_objs]]
            rep, arr = gen_state(blk["state"], dims, int(ps.expansion_level), knd)
            assert ps.state.shape == arr.shape, (ps.state.shape, arr.shape)
            ps.state = jnp.array(arr)


def _name_of(world: World, obj) -> str:
    for n, s in world.subs:
        if s is obj:
            return n
    raise KeyError("unknown object")
