"""Property-based verification machinery for tqsd/photon_weave (see /verif/DESIGN.md)."""
