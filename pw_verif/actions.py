"""
Actions of generated programs: construction of the library request and of the reference
operator for the same JSON description, and the per-step differential oracles.

An operation description ("opdesc"):
  {"type": "pol:RX", "params": {"theta": 0.3}}
  {"type": "pol:Custom", "useed": 5, "unitary": true}
  {"type": "fock:Creation"} | fock:Annihilation | fock:Identity | {"type":"fock:PhaseShift","params":{"phi":..}}
  {"type": "fock:Displace", "params": {"alpha": [re, im]}} | fock:Squeeze {"zeta": [re, im]}
  {"type": "fock:Custom", "useed": 3}                 (unitary at the target's current dimension)
  {"type": "fock:Expresion", "params": {"phi": ..}}    (expm(i phi n) through the interpreter)
  {"type": "custom:Custom", "useed": 3, "unitary": bool} | {"type": "custom:Expresion", "useed": 3}
  {"type": "comp:CX"} comp:CZ comp:SWAP comp:CSWAP {"type":"comp:BS","params":{"eta":..}}
  {"type": "comp:Expression", "factors": [ {"kind":"pol","useed":..} | {"kind":"custom","useed":..}
                                          | {"kind":"fock","phi":..} , ...]}
"""
from __future__ import annotations

import math
from typing import Dict, List, Optional, Sequence, Tuple

import numpy as np

from pw_verif import ref

RENORMALISING_FOCK = {"Creation", "Annihilation", "Squeeze"}
MAX_REF_DIM = 3072   # joint dimension (after padding the addressed mode) the reference is willing to handle


class TooBig(Exception):
    """the joint dimension outgrew what the harness can reconstruct: the program ends, inconclusive"""



def is_renormalising(optype: str) -> bool:
    fam, name = optype.split(":")
    if fam == "fock":
        return name in RENORMALISING_FOCK
    return True  # all polarization, custom-state and composite types


def cplx(v) -> complex:
    return complex(v[0], v[1])


def seeded_matrix(seed: int, d: int, unitary: bool) -> np.ndarray:
    rng = np.random.default_rng(int(seed) * 31 + d)
    if unitary:
        return ref.rand_unitary(rng, d)
    m = rng.normal(size=(d, d)) + 1j * rng.normal(size=(d, d))
    # keep it well conditioned so the result is never (numerically) the zero operator
    return m / np.linalg.norm(m, 2) + 0.3 * np.eye(d)


# ----------------------------------------------------------------------------------------
# library side
# ----------------------------------------------------------------------------------------
def make_operation(opdesc: dict, target_dims: Sequence[int]):
    """build the photon_weave Operation; target_dims are the targets' current public dimensions
    (only used for operators the user has to size: Custom)"""
    import jax.numpy as jnp
    from photon_weave._math.ops import number_operator
    from photon_weave.operation import (
        CompositeOperationType,
        CustomStateOperationType,
        FockOperationType,
        Operation,
        PolarizationOperationType,
    )
    from photon_weave.state.custom_state import CustomState
    from photon_weave.state.fock import Fock
    from photon_weave.state.polarization import Polarization

    fam, name = opdesc["type"].split(":")
    p = dict(opdesc.get("params", {}))
    if fam == "pol":
        if name == "Custom":
            m = seeded_matrix(opdesc["useed"], 2, opdesc.get("unitary", True))
            return Operation(PolarizationOperationType.Custom, operator=jnp.array(m))
        return Operation(getattr(PolarizationOperationType, name), **p)
    if fam == "fock":
        if name == "Displace":
            return Operation(FockOperationType.Displace, alpha=cplx(p["alpha"]))
        if name == "Squeeze":
            return Operation(FockOperationType.Squeeze, zeta=cplx(p["zeta"]))
        if name == "Custom":
            d = int(target_dims[0])
            m = seeded_matrix(opdesc["useed"], d, opdesc.get("unitary", True))
            return Operation(FockOperationType.Custom, operator=jnp.array(m))
        if name == "Expresion":
            ctx = {"n": lambda dims: number_operator(dims[0])}
            return Operation(FockOperationType.Expresion, expr=("expm", ("s_mult", 1j, float(p["phi"]), "n")), context=ctx)
        return Operation(getattr(FockOperationType, name), **p)
    if fam == "custom":
        d = int(target_dims[0])
        if name == "Custom":
            m = seeded_matrix(opdesc["useed"], d, opdesc.get("unitary", True))
            return Operation(CustomStateOperationType.Custom, operator=jnp.array(m))
        m1 = seeded_matrix(opdesc["useed"], d, True)
        m2 = seeded_matrix(opdesc["useed"] + 1, d, opdesc.get("unitary", True))
        ctx = {"A": lambda dims: jnp.array(m1), "B": lambda dims: jnp.array(m2)}
        return Operation(CustomStateOperationType.Expresion, expr=("m_mult", "A", "B"), context=ctx)
    if fam == "comp":
        if name == "BS":
            return Operation(CompositeOperationType.NonPolarizingBeamSplitter, eta=float(p["eta"]))
        if name == "Expression":
            ctx = {}
            types = []
            names = []
            for k, f in enumerate(opdesc["factors"]):
                nm = f"F{k}"
                names.append(nm)
                if f["kind"] == "pol":
                    m = seeded_matrix(f["useed"], 2, True)
                    ctx[nm] = (lambda dims, _m=m: jnp.array(_m))
                    types.append(Polarization)
                elif f["kind"] == "custom":
                    m = seeded_matrix(f["useed"], int(target_dims[k]), True)
                    ctx[nm] = (lambda dims, _m=m: jnp.array(_m))
                    types.append(CustomState)
                else:
                    ph = float(f["phi"])
                    ctx[nm] = (lambda dims, _k=k, _ph=ph: jnp.diag(jnp.exp(1j * _ph * jnp.arange(dims[_k]))))
                    types.append(Fock)
            expr = ("kron", *names) if len(names) > 1 else names[0]
            return Operation(CompositeOperationType.Expression, expr=expr, state_types=tuple(types), context=ctx)
        typ = {"CX": "CXPolarization", "CZ": "CZPolarization", "SWAP": "SwapPolarization", "CSWAP": "CSwapPolarization"}[name]
        return Operation(getattr(CompositeOperationType, typ))
    raise ValueError(opdesc["type"])


def arity(opdesc: dict) -> int:
    fam, name = opdesc["type"].split(":")
    if fam != "comp":
        return 1
    if name == "CSWAP":
        return 3
    if name == "Expression":
        return len(opdesc["factors"])
    return 2


def operand_kinds(opdesc: dict) -> List[str]:
    fam, name = opdesc["type"].split(":")
    if fam != "comp":
        return [fam]
    if name == "BS":
        return ["fock", "fock"]
    if name == "Expression":
        return [f["kind"] for f in opdesc["factors"]]
    return ["pol"] * arity(opdesc)


# ----------------------------------------------------------------------------------------
# reference side
# ----------------------------------------------------------------------------------------
def ref_operator(opdesc: dict, dims: Sequence[int], lib_dims_at_call: Sequence[int]) -> np.ndarray:
    """textbook operator on the targets at reference dimensions `dims`.
    lib_dims_at_call: the targets' public dimensions when the request was built (user-sized
    operators are defined at that size and act as identity on padded levels)."""
    fam, name = opdesc["type"].split(":")
    p = opdesc.get("params", {})
    if fam == "pol":
        if name == "Custom":
            return seeded_matrix(opdesc["useed"], 2, opdesc.get("unitary", True))
        return ref.pol_gate(name, **p)
    if fam == "fock":
        d = int(dims[0])
        if name == "Creation":
            return ref.create(d)
        if name == "Annihilation":
            return ref.destroy(d)
        if name == "Identity":
            return np.eye(d, dtype=complex)
        if name in ("PhaseShift", "Expresion"):
            return ref.phase_shift(d, float(p["phi"]))
        if name == "Displace":
            return ref.displace(d, cplx(p["alpha"]))
        if name == "Squeeze":
            return ref.squeeze(d, cplx(p["zeta"]))
        if name == "Custom":
            dl = int(lib_dims_at_call[0])
            m = np.eye(d, dtype=complex)
            m[:dl, :dl] = seeded_matrix(opdesc["useed"], dl, opdesc.get("unitary", True))
            return m
    if fam == "custom":
        d = int(dims[0])
        if name == "Custom":
            return seeded_matrix(opdesc["useed"], d, opdesc.get("unitary", True))
        return seeded_matrix(opdesc["useed"], d, True) @ seeded_matrix(opdesc["useed"] + 1, d, opdesc.get("unitary", True))
    if fam == "comp":
        if name == "BS":
            return ref.beam_splitter(int(dims[0]), int(dims[1]), float(p["eta"]))
        if name == "Expression":
            m = np.ones((1, 1), complex)
            for k, f in enumerate(opdesc["factors"]):
                if f["kind"] == "pol":
                    fk = seeded_matrix(f["useed"], 2, True)
                elif f["kind"] == "custom":
                    fk = seeded_matrix(f["useed"], int(dims[k]), True)
                else:
                    fk = ref.phase_shift(int(dims[k]), float(f["phi"]))
                m = np.kron(m, fk)
            return m
        return {"CX": ref.CX, "CZ": ref.CZ, "SWAP": ref.SWAP, "CSWAP": ref.CSWAP}[name].copy()
    raise ValueError(opdesc["type"])


def support_top(rho: np.ndarray, dims: Sequence[int], idx: int, eps: float = 1e-13) -> int:
    """highest occupied level of subsystem idx"""
    diag = ref.diag_marginal(rho, dims, idx)
    nz = np.nonzero(diag > eps)[0]
    return int(nz[-1]) if len(nz) else 0


def reference_dims_for_op(opdesc: dict, pre_rho, pre_dims, tidx: Sequence[int], post_dims) -> List[int]:
    """dimensions at which the ideal (untruncated) action is computed and compared"""
    fam, name = opdesc["type"].split(":")
    common = [max(a, b) for a, b in zip(pre_dims, post_dims)]
    if fam == "fock":
        i = tidx[0]
        top = support_top(pre_rho, pre_dims, i)
        if name == "Creation":
            common[i] = max(common[i], top + 2)
        elif name in ("Displace", "Squeeze"):
            common[i] = max(common[i], 26 + top)
    if fam == "comp" and name == "BS":
        tops = [support_top(pre_rho, pre_dims, i) for i in tidx]
        n = sum(tops) + 1
        for i in tidx:
            common[i] = max(common[i], n)
    return common


def expected_after_op(opdesc, pre, tnames: Sequence[str], post_dims_by_name: Dict[str, int], lib_dims_at_call):
    """returns (rho_expected or None if the ideal result is the zero operator, common dims)"""
    tidx = [pre.names.index(t) for t in tnames]
    post_dims = [post_dims_by_name.get(n, d) for n, d in zip(pre.names, pre.dims)]
    common = reference_dims_for_op(opdesc, pre.rho, pre.dims, tidx, post_dims)
    total = 1
    for c in common:
        total *= int(c)
    if total > MAX_REF_DIM:
        raise TooBig(f"reference dimension {total}")
    rho = ref.pad(pre.rho, pre.dims, common)
    O = ref_operator(opdesc, [common[i] for i in tidx], lib_dims_at_call)
    out = ref.apply_op(rho, common, tidx, O)
    tr = float(np.real(np.trace(out)))
    if tr < 1e-13:
        return None, common, tr
    if is_renormalising(opdesc["type"]):
        out = out / tr
    return out, common, tr
