"""
Program interpreter with per-step oracles and per-step invariants (the shared "machine").

A program is a JSON list of steps over symbolic names (see STEP FORMATS below). Every step is
executed against the real library from its current state; the oracle compares the joint
density matrix reconstructed from the object graph after the call with what the reference model
predicts from the one reconstructed before it. Verdicts are tagged with the property they are
evidence against; a property's check raises only on its own tags and abandons a program after a
foreign failure (the state may be corrupt from then on).

STEP FORMATS
  {"k":"op","entry":"state|env|ce0","targets":[names],"op":opdesc}
  {"k":"struct","call":"env_combine|env_expand|env_contract","env":"e0"}
  {"k":"struct","call":"env_reorder","env":"e0","order":[names]}
  {"k":"struct","call":"ce_combine|ce_reorder","ce":"ce0","members":[names]}
  {"k":"struct","call":"ce_expand","ce":"ce0","members":[names]}
  {"k":"struct","call":"expand","sub":name}
  {"k":"struct","call":"contract","sub":name,"final":0|1}
  {"k":"struct","call":"new_ce","members":[env/custom/ce names]}
  {"k":"trace_out","entry":"state|env|ce0","targets":[names]}
  {"k":"kraus","entry":"state|env|ce0","targets":[names],"kseed":int,"nops":int,"unitary":bool}
  {"k":"measure","entry":"state|env|ce0","targets":[names],"sep":bool,"destructive":bool,"script":[ints]}
  {"k":"povm","entry":"state|env|ce0","targets":[names],"pseed":int,"nops":int,"projective":bool,
          "destructive":bool,"script":[ints]}
  {"k":"resize","entry":"state|env|ce0","target":name,"n":int}
  {"k":"set_contraction","value":bool}
"""
from __future__ import annotations

from typing import Any, Dict, List, Optional, Sequence, Tuple

import numpy as np

from pw_verif import actions, ref
from pw_verif.engine import PrepFailed, Run, TOL_EXACT, TOL_EXPM, TOL_TRUNC, site_of
from pw_verif.harness import LibRaised, Violation, libcall
from pw_verif.sampler import SAMPLER
from pw_verif.snap import Block, Malformed, Snapshot, bookkeeping_problems, snapshot, validity_problems

P_EPS = 1e-12


class Tagged(Violation):
    def __init__(self, props: Sequence[str], oracle: str, detail: str, site: Optional[dict] = None, from_invariant: bool = False,
                 expected=None):
        super().__init__(oracle, detail, site)
        self.props = list(props)
        # (names, dims, rho): the joint state the call should have produced, when the step oracle knows it.
        # A check for ANOTHER property carries it forward as the reference for the next step (see Machine.carry)
        self.expected = expected
        # raised by the after-step invariants (the step's own oracle had passed): the physical
        # state is still as predicted, so a program may go on after such a verdict for another property
        self.from_invariant = from_invariant


class Inapplicable(Exception):
    """the generated step does not make sense in the current dynamic state (skipped, counted)"""


class Destroyed(Inapplicable):
    """the step addresses a destroyed subsystem"""

    def __init__(self, name):
        super().__init__(f"{name} destroyed")
        self.name = name


TooBig = actions.TooBig


def _dims_by_name(s: Snapshot) -> Dict[str, int]:
    return dict(zip(s.names, s.dims))


def align(pre: Snapshot, post: Snapshot, names: List[str]) -> Tuple[np.ndarray, np.ndarray, List[int]]:
    """reduced states of `names` from both snapshots, padded to common dimensions"""
    a = ref.ptrace(pre.rho, pre.dims, [pre.names.index(n) for n in names]) if names != pre.names else pre.rho
    b = ref.ptrace(post.rho, post.dims, [post.names.index(n) for n in names]) if names != post.names else post.rho
    da = [pre.dim_of(n) for n in names]
    db = [post.dim_of(n) for n in names]
    common = [max(x, y) for x, y in zip(da, db)]
    return ref.pad(a, da, common), ref.pad(b, db, common), common



def r5_trigger(pre: Snapshot, targets: Sequence[str], focks: Sequence[str]) -> bool:
    """Root-cause model of known finding R5: at vector level the library's trace_out sums the
    amplitudes of the other subsystems. True iff, for some Fock subsystem in `focks`, that
    amplitude-sum vector (over the block obtained by merging the blocks of `targets`) is zero or
    has a lower top level than the true reduced state."""
    bidx = sorted({pre.where[t] for t in targets})
    blocks = [pre.blocks[i] for i in bidx]
    if any(b.rep == "matrix" for b in blocks):
        return False
    members: List[str] = []
    dims: List[int] = []
    psi = np.ones(1, complex)
    for b in blocks:
        r = b.rho()
        # pure by construction: take the dominant eigenvector with the block's own amplitudes
        if b.rep == "vector":
            v = np.asarray(b.array, complex).reshape(-1)
        else:
            w_, vec = np.linalg.eigh(r)
            v = vec[:, -1]
        psi = np.kron(psi, v)
        members += b.members
        dims += b.dims
    if len(members) < 2:
        return False
    t = psi.reshape(dims)
    for f in focks:
        ax = members.index(f)
        other = tuple(i for i in range(len(dims)) if i != ax)
        c = t.sum(axis=other)
        true_diag = (np.abs(t) ** 2).sum(axis=other)
        nz_c = np.nonzero(np.abs(c) > 1e-14)[0]
        nz_t = np.nonzero(true_diag > 1e-28)[0]
        if len(nz_c) == 0 or nz_c[-1] != nz_t[-1]:
            return True
    return False


def r5_sum_ray_differs(pre: Snapshot, targets: Sequence[str], want: np.ndarray) -> bool:
    """the ray obtained by summing the amplitudes of the traced-out subsystems (vector-level blocks)
    is not the true reduced state `want` (e.g. a state entangled only at the 1e-5 level)"""
    bidx = sorted({pre.where[t] for t in targets})
    blocks = [pre.blocks[i] for i in bidx]
    if any(b.rep == "matrix" for b in blocks):
        return False
    members, dims = [], []
    psi = np.ones(1, complex)
    for b in blocks:
        v = np.asarray(b.array, complex).reshape(-1) if b.rep == "vector" else np.linalg.eigh(b.rho())[1][:, -1]
        psi = np.kron(psi, v)
        members += b.members
        dims += b.dims
    other = tuple(i for i, m in enumerate(members) if m not in targets)
    if not other:
        return False
    c = psi.reshape(dims).sum(axis=other)
    kept = [m for m in members if m in targets]
    c = np.transpose(c, [kept.index(t) for t in targets]).reshape(-1)
    n = np.linalg.norm(c)
    if n < 1e-12:
        return True
    return bool(ref.trace_distance(ref.pure_rho(c / n), want) > 1e-9)


def r5_zero_sum(pre: Snapshot, targets: Sequence[str]) -> bool:
    """amplitude-sum over the traced-out subsystems vanishes (vector-level blocks only)"""
    bidx = sorted({pre.where[t] for t in targets})
    blocks = [pre.blocks[i] for i in bidx]
    if any(b.rep == "matrix" for b in blocks):
        return False
    members, dims = [], []
    psi = np.ones(1, complex)
    for b in blocks:
        v = np.asarray(b.array, complex).reshape(-1) if b.rep == "vector" else np.linalg.eigh(b.rho())[1][:, -1]
        psi = np.kron(psi, v)
        members += b.members
        dims += b.dims
    other = tuple(i for i, m in enumerate(members) if m not in targets)
    if not other:
        return False
    c = psi.reshape(dims).sum(axis=other)
    return bool(np.linalg.norm(c) < 1e-12)



def contraction_slack(post: Snapshot, want: np.ndarray, want_names: Sequence[str], want_dims: Sequence[int]) -> float:
    """The library documents (tol=1e-6 in every contract()) that a density matrix whose purity is within
    1e-6 of one is treated as pure and replaced by its dominant eigenvector. For every block that is
    stored as vector/label after the call while the expected state of its members is *nearly* pure
    (deficit 1 - Tr rho^2 below 1e-5), that documented replacement moves the state by about the deficit:
    this much extra distance is accepted. A block contracted although its deficit is >= 1e-5 gets no
    slack and is flagged as before."""
    # (independent of the Config switch: Envelope.apply_kraus contracts unconditionally)
    slack = 0.0
    for b in post.blocks:
        if b.rep == "matrix":
            continue
        try:
            idx = [list(want_names).index(m) for m in b.members]
        except ValueError:
            continue
        red = ref.ptrace(want, list(want_dims), idx)
        deficit = 1.0 - ref.purity(red)
        if 1e-15 < deficit < 1e-5:
            slack += 2.0 * deficit
    return slack


def unit(rho: np.ndarray):
    """rho / Tr rho (used once a non-unitary, non-renormalising user operator has taken the state out of
    the unit-trace regime: from then on states and probabilities are compared after normalisation)"""
    t = complex(np.trace(rho))
    return rho / t if abs(t) > 1e-300 else rho


def unnormalised(s: Snapshot) -> bool:
    return abs(complex(np.trace(s.rho)) - 1.0) > 1e-9


def kraus_ops(kseed: int, dim: int, nops: int, unitary: bool) -> List[np.ndarray]:
    rng = np.random.default_rng(int(kseed) * 17 + dim)
    if unitary or nops == 1:
        return [ref.rand_unitary(rng, dim)]
    return ref.rand_kraus(rng, dim, nops)


def povm_ops(pseed: int, dim: int, nops: int, projective: bool, unsharp=None) -> List[np.ndarray]:
    rng = np.random.default_rng(int(pseed) * 13 + dim)
    if unsharp is not None and dim >= 2:
        # weak ("unsharp") number-basis measurement: M_i = sqrt(1-eta)|i><i| + sqrt(eta/(d-1)) sum_{j!=i}|j><j|,
        # eta = 10**unsharp; complete for every eta, nearly projective for small eta
        eta = 10.0 ** float(unsharp)
        ops = []
        for i in range(dim):
            m = np.eye(dim, dtype=complex) * np.sqrt(eta / (dim - 1))
            m[i, i] = np.sqrt(1 - eta)
            ops.append(m)
        return ops
    if projective:
        u = ref.rand_unitary(rng, dim)
        nops = max(1, min(nops, dim))
        # split the rotated basis into nops groups
        groups = [[] for _ in range(nops)]
        for i in range(dim):
            groups[i % nops].append(i)
        ops = []
        for g in groups:
            p = np.zeros((dim, dim), complex)
            for i in g:
                p += np.outer(u[:, i], u[:, i].conj())
            ops.append(p)
        return ops
    return ref.rand_kraus(rng, dim, max(2, nops))


# ----------------------------------------------------------------------------------------
class Machine:
    def __init__(self, spec, layout, contraction=True, seed=0):
        self.run = Run(spec, layout, contraction, seed)
        self.w = self.run.world
        self.labels: List[str] = []
        self.nontrivial = False
        self.steps_done = 0
        self.probe_remeasure = False
        self.skipped = 0
        self.sites: List[tuple] = []
        # History reference. Every step is judged from the library's own state before the call, so a call
        # that corrupts the state is reported once, under the property of that call. When the check of a
        # different property meets such a failure, it puts the state the call SHOULD have produced here; the
        # next step's pre-snapshot then takes its density matrix from it, so that this property's own oracle
        # (Born distribution, partial trace, collapse, ...) is evaluated against the state the history
        # determines. Never set on a tree where all step oracles pass.
        self.carry = None

    # -- helpers -----------------------------------------------------------------------
    def snap(self) -> Snapshot:
        try:
            s = snapshot(self.w)
        except Malformed as m:
            if m.what == "too-big":
                raise TooBig(m.reason)
            raise
        if self.carry is not None:
            c, self.carry = self.carry, None
            s = self._apply_carry(s, c)
        return s

    def _apply_carry(self, s: Snapshot, c) -> Snapshot:
        import dataclasses

        names, dims, rho = c
        if s.rho is None or sorted(names) != sorted(s.names) or not s.names:
            return s
        order = [list(names).index(n) for n in s.names]
        rho, d = ref.permute(np.asarray(rho, complex), list(dims), order)
        tgt = [int(x) for x in s.dims]
        common = [max(int(a), b) for a, b in zip(d, tgt)]
        rho = ref.pad(rho, list(d), common)
        if common != tgt:
            # the library holds fewer levels than the reference: usable only if the reference has nothing there
            t = rho.reshape(common + common)
            sl = tuple(slice(0, x) for x in tgt) * 2
            cut = t[sl].reshape(int(np.prod(tgt)), int(np.prod(tgt)))
            if abs(np.trace(rho) - np.trace(cut)) > 1e-12:
                return s
            rho = cut
        self.labels.append("history-reference-used")
        return dataclasses.replace(s, rho=np.array(rho, complex))

    def live(self, name) -> bool:
        s = self.w.obj[name]
        return not bool(getattr(s, "measured", False))

    def require_live(self, names):
        for n in names:
            if n not in self.w.obj:
                raise Inapplicable(f"{n} unknown")
            if not self.live(n):
                raise Destroyed(n)

    def entry_obj(self, entry: str, targets: List[str]):
        w = self.w
        if entry == "state":
            return w.obj[targets[0]]
        if entry == "env":
            envs = {w.env_of.get(t) for t in targets}
            if len(envs) != 1 or None in envs:
                raise Inapplicable("targets not in one envelope")
            env = w.envs[envs.pop()]
            if env.measured:
                # a retired envelope is no entry point any more (its surviving member is addressed
                # through itself or its composite envelope); what Envelope.measured is after a
                # partial measurement is not fixed by any property
                raise Inapplicable("envelope retired")
            return env
        if entry not in w.ces:
            raise Inapplicable("no such composite")
        mem = w.ce_members(entry)
        if not all(t in mem for t in targets):
            raise Inapplicable("target outside composite")
        return w.ces[entry]

    def post_snapshot(self, props, site, what):
        try:
            return self.snap()
        except Malformed as m:
            tags = sorted(set(list(props) + ["C07", "C13"]))
            raise Tagged(tags, "malformed-after-" + what, m.reason, dict(site, what=m.what))

    # -- invariants after a successful call ------------------------------------------
    def invariants(self, pre: Snapshot, post: Snapshot, addressed: List[str], site: dict, allow_merge: bool, removed: List[str] = ()):
        w = self.w
        probs = validity_problems(w, post)
        if probs:
            raise Tagged(["C07"], "invalid-state", "; ".join(probs[:3]), dict(site, what=probs[0].split(":")[0]), from_invariant=True)
        bp = bookkeeping_problems(w, post)
        if bp:
            raise Tagged(["C13"], "bookkeeping", "; ".join(bp[:3]), dict(site, what=bp[0].split(":")[0]), from_invariant=True)
        # C20: partition rule + bystander blocks untouched
        touched_blocks = {pre.where[a] for a in addressed if a in pre.where}
        for bi, b in enumerate(pre.blocks):
            if bi in touched_blocks:
                continue
            # bystander: must exist unchanged
            sig = b.signature()
            found = any(pb.signature() == sig for pb in post.blocks)
            if not found:
                same_members = [pb for pb in post.blocks if pb.members == b.members and pb.container == b.container]
                if same_members:
                    pb = same_members[0]
                    why = "level/representation changed" if (pb.level != b.level or pb.rep != b.rep) else "amplitudes rewritten"
                else:
                    why = "membership or order changed"
                raise Tagged(["C20"], "bystander-modified", f"block {b.members} ({b.container.split(':')[0]}) does not contain an addressed subsystem but {why}",
                             dict(site, what=why.split()[0]), from_invariant=True)
        want_union = set()
        for bi in touched_blocks:
            want_union |= set(pre.blocks[bi].members)
        want_union -= set(removed)
        for pb in post.blocks:
            ms = set(pb.members)
            if ms & want_union:
                if not ms <= want_union:
                    raise Tagged(["C20"], "over-merge", f"block {pb.members} now also holds subsystems of blocks that contained no addressed subsystem", site, from_invariant=True)
                if not allow_merge:
                    # single-subsystem action: no block may grow
                    origin = [pre.blocks[bi] for bi in touched_blocks]
                    if not any(ms <= set(o.members) for o in origin):
                        raise Tagged(["C20"], "grew", f"single-subsystem action enlarged a product space to {pb.members}", site, from_invariant=True)
        if allow_merge and len(addressed) >= 2:
            live_addr = [a for a in addressed if a in post.where]
            if live_addr and len({post.where[a] for a in live_addr}) != 1:
                pass  # merging is allowed, not required, by the statement
        for r in removed:
            if r in post.where:
                pass

    def invariants_now(self, prop: str, site: dict):
        """validity / bookkeeping predicate on the current graph (used after a foreign failure)"""
        try:
            post = self.snap()
        except TooBig:
            return
        except Malformed as m:
            raise Tagged(["C07", "C13"], "malformed", m.reason, dict(site, what=m.what))
        if prop == "C07":
            probs = validity_problems(self.w, post)
            if probs:
                raise Tagged(["C07"], "invalid-state", "; ".join(probs[:3]), dict(site, what=probs[0].split(":")[0]))
        if prop == "C13":
            bp = bookkeeping_problems(self.w, post)
            if bp:
                raise Tagged(["C13"], "bookkeeping", "; ".join(bp[:3]), dict(site, what=bp[0].split(":")[0]))

    # -- dispatch ------------------------------------------------------------------------
    def step(self, st: dict):
        k = st["k"]
        fn = getattr(self, "do_" + k)
        if k in ("invalid", "set_contraction") and self.carry is not None:
            # "rejected calls change nothing" is about the state as it is; the history reference waits
            hold, self.carry = self.carry, None
            try:
                return fn(st)
            finally:
                self.carry = hold
        out = fn(st)
        self.steps_done += 1
        return out

    # -- operations ----------------------------------------------------------------------
    def do_op(self, st):
        w = self.w
        targets = st["targets"]
        op = st["op"]
        self.require_live(targets)
        kinds = actions.operand_kinds(op)
        if [w.kind[t] for t in targets] != kinds or len(set(targets)) != len(targets):
            raise Inapplicable("operand kinds")
        entry = st["entry"]
        self.entry_obj(entry, targets)
        fam, name = op["type"].split(":")
        if fam == "comp" and not entry.startswith("ce"):
            raise Inapplicable("composite op needs composite entry")
        if fam != "comp" and entry == "env" and w.kind[targets[0]] == "custom":
            raise Inapplicable("custom via env")
        props = ["C03"] if fam == "comp" else ["C01"]
        if (fam == "comp" and name == "BS") or op["type"] == "fock:PhaseShift":
            props.append("C11")
        if op["type"] in ("fock:Displace", "fock:Squeeze", "fock:Expresion"):
            props.append("C10")
        try:
            pre = self.snap()
        except Malformed as m:
            raise Tagged(["C07", "C13"], "malformed-before-op", m.reason, dict(what=m.what, action="op"))
        site = site_of(w, pre, targets, "ce" if entry.startswith("ce") else entry, "op",
                       dict(optype=op["type"], renorm=actions.is_renormalising(op["type"])))
        if fam == "comp":
            blocks = [pre.where[t] for t in targets]
            site["spread"] = len(set(blocks))
            site["reps"] = "/".join(sorted({pre.blocks[b].rep for b in blocks}))
            site["clss"] = "/".join(sorted({w.block_cls.get(t, "label") for t in targets}))
        site["r5_trigger"] = r5_trigger(pre, targets, [t for t in targets if w.kind[t] == "fock"])
        tdims = [w.dim(t) if w.dim(t) > 0 else (int(w.obj[t].state) + 2 if isinstance(w.obj[t].state, int) else 2) for t in targets]
        # the reference needs at least these dimensions (more if the library chooses larger ones): if that is
        # already beyond what the harness reconstructs, the verdict would be "inconclusive" after the call -
        # reach it before, without letting the library build a state of several GB
        need = actions.reference_dims_for_op(op, pre.rho, pre.dims, [pre.names.index(t) for t in targets], pre.dims)
        if int(np.prod([int(x) for x in need], dtype=object)) > actions.MAX_REF_DIM:
            raise TooBig("reference dimension before the call")
        raised = None
        try:
            self.run.call_op(op, entry, targets, reuse=bool(st.get("reuse")))
            if st.get("reuse"):
                self.labels.append("operation-object-reused")
        except LibRaised as e:
            raised = e
        post = self.post_snapshot(props, site, "op")
        exp, common, tr = actions.expected_after_op(op, pre, targets, _dims_by_name(post), tdims)
        if raised is not None:
            if exp is None and tr > 0.0 and "zeros" not in str(raised.exc):
                raise Tagged(props, "raised", f"{op['type']} via {entry} on {targets} raised {raised}", dict(site, sig=raised.sig()))
            if exp is None:
                self.labels.append("op-rejected-legitimately")
                # rejected: nothing may have changed (C17)
                self.unchanged(pre, post, ["C17"], dict(site, fault="zero-result"))
                return dict(outcome="rejected", pre=pre, post=post, site=site)
            raise Tagged(props, "raised", f"{op['type']} via {entry} on {targets} raised {raised}", dict(site, sig=raised.sig()))
        if exp is None and tr > 0.0:
            # numerically (not exactly) zero result, e.g. 1e-34 of residual population left by an
            # eigen-decomposition: neither rejection nor application can be demanded
            self.labels.append("op-result-numerically-zero")
            raise Inapplicable("numerically-zero result")
        if exp is None:
            raise Tagged(props + ["C17"], "zero-not-rejected", f"{op['type']} on {targets}: ideal result is the zero operator but the call succeeded", site)
        if post.names != pre.names:
            raise Tagged(props, "subsystems-changed", f"operation changed the set of live subsystems {pre.names} -> {post.names}", site)
        post_c = [max(c, d) for c, d in zip(common, post.dims)]
        got = ref.pad(post.rho, post.dims, post_c)
        want = ref.pad(exp, common, post_c)
        if unnormalised(pre):
            got, want = unit(got), unit(want)
            self.labels.append("unit-trace-regime-left")
        td = ref.trace_distance(got, want)
        tol = TOL_TRUNC if name in ("Displace", "Squeeze") else (TOL_EXPM if name in ("BS",) else TOL_EXACT)
        tol += contraction_slack(post, want, pre.names, post_c)
        if td > tol:
            trg = float(np.real(np.trace(got)))
            what = "trace" if abs(trg - 1) > 1e-6 and abs(trg) > 1e-9 and ref.trace_distance(got / trg, want) <= tol else "state"
            raise Tagged(props, "differs", f"{op['type']} via {entry} on {targets} (storage {site['storage']}/{site['rep']}): distance {td:.3e} "
                         f"from (OxI)rho(OxI)+ (trace of result {trg:.6f})", dict(site, what=what),
                         expected=None if unnormalised(pre) else (list(pre.names), list(post_c), want))
        if "C11" in props:
            modes = [t for t in targets if w.kind[t] == "fock"]
            nmax = sum(post_c[pre.names.index(m)] for m in modes)
            d0 = ref.number_distribution(ref.pad(unit(pre.rho) if unnormalised(pre) else pre.rho, pre.dims, post_c), post_c, [pre.names.index(m) for m in modes], nmax)
            d1 = ref.number_distribution(got, post_c, [pre.names.index(m) for m in modes], nmax)
            if np.max(np.abs(d0 - d1)) > 1e-8 + 2.0 * contraction_slack(post, want, pre.names, post_c):
                raise Tagged(["C11"], "number-distribution", f"{op['type']} on {targets} changed the total photon number distribution by {np.max(np.abs(d0 - d1)):.3e}", site)
        self.invariants(pre, post, targets, site, allow_merge=len(targets) >= 2)
        return dict(outcome="applied", pre=pre, post=post, site=site, td=td)

    def unchanged(self, pre: Snapshot, post: Snapshot, props, site, tol=1e-10):
        if set(pre.names) != set(post.names):
            raise Tagged(props, "changed-after-rejection", f"live subsystems changed {pre.names} -> {post.names}", dict(site, what="names"))
        a, b, _ = align(pre, post, pre.names)
        td = ref.trace_distance(a, b)
        if td > tol:
            raise Tagged(props, "changed-after-rejection", f"joint state moved by {td:.3e} although the call was rejected", dict(site, what="state"))
        probs = validity_problems(self.w, post) + bookkeeping_problems(self.w, post)
        if unnormalised(pre):
            # a non-unitary user operator had taken the state out of the unit-trace regime before the call
            probs = [p_ for p_ in probs if p_.split(":")[0] not in ("trace", "norm")]
        if probs:
            raise Tagged(props, "changed-after-rejection", "object graph ill-formed after rejected call: " + probs[0], dict(site, what="graph"))

    # -- structural calls ------------------------------------------------------------------
    def do_struct(self, st):
        w = self.w
        call = st["call"]
        addressed: List[str] = []
        allow_merge = False
        props = ["C02"]
        if call in ("env_combine", "env_expand", "env_contract", "env_reorder"):
            env = w.envs[st["env"]]
            addressed = [st["env"] + ".f", st["env"] + ".p"]
            self.require_live(addressed)
            if env.measured:
                raise Inapplicable("envelope measured")
            if call == "env_combine":
                fn = lambda: env.combine()
                allow_merge = True
                if any(isinstance(w.obj[a].index, tuple) for a in addressed):
                    raise Inapplicable("members already in a composite product space")
                if env.state is not None:
                    raise Inapplicable("envelope already combined (combine() is not documented as idempotent)")
            elif call == "env_expand":
                fn = lambda: env.expand()
                props = ["C02", "C08"]
            elif call == "env_contract":
                if env.state is None:
                    raise Inapplicable("envelope not combined")
                fn = lambda: env.contract()
                props = ["C02", "C08"]
            else:
                order = st["order"]
                if sorted(order) != sorted(addressed)[: len(order)] and not set(order) <= set(addressed):
                    raise Inapplicable("order")
                fn = lambda: env.reorder(*[w.obj[o] for o in order])
        elif call in ("ce_combine", "ce_reorder", "ce_expand"):
            if st["ce"] not in w.ces:
                raise Inapplicable("no composite")
            ce = w.ces[st["ce"]]
            members = st["members"]
            self.require_live(members)
            mem = w.ce_members(st["ce"])
            if not members or not all(m in mem for m in members) or len(set(members)) != len(members):
                raise Inapplicable("members")
            addressed = list(members)
            objs = [w.obj[m] for m in members]
            if call == "ce_combine":
                fn = lambda: ce.combine(*objs)
                allow_merge = True
            elif call == "ce_reorder":
                fn = lambda: ce.reorder(*objs)
                allow_merge = True
            else:
                fn = lambda: ce.expand(*objs)
                props = ["C02", "C08"]
        elif call in ("expand", "contract"):
            s = st["sub"]
            self.require_live([s])
            addressed = [s]
            obj = w.obj[s]
            if call == "expand":
                fn = lambda: obj.expand()
            else:
                from photon_weave.state.expansion_levels import ExpansionLevel

                fn = lambda: obj.contract(final=ExpansionLevel(int(st.get("final", 0))))
            props = ["C02", "C08"]
        elif call == "new_ce":
            members = st["members"]
            for m in members:
                if m in w.envs:
                    if w.envs[m].measured:
                        raise Inapplicable("measured envelope")
                elif m not in w.customs and m not in w.ces:
                    raise Inapplicable("member")
            fn = lambda: w.new_ce(members)
            props = ["C02", "C13"]
        else:
            raise ValueError(call)
        try:
            pre = self.snap()
        except Malformed as m:
            raise Tagged(["C07", "C13"], "malformed-before-struct", m.reason, dict(what=m.what, action=call))
        site = site_of(w, pre, addressed, call.split("_")[0], call) if addressed else dict(action=call, entry="ce")
        levels_before = {a: pre.block_of(a).rep for a in addressed}
        try:
            libcall(fn)
        except LibRaised as e:
            if call in ("contract", "env_contract"):
                # contract may refuse; it must then leave everything untouched
                post = self.post_snapshot(props, site, call)
                self.unchanged(pre, post, ["C08"], dict(site, fault="contract-raised"))
                self.labels.append("contract-raised")
                return dict(outcome="raised", pre=pre, post=post, site=site)
            raise Tagged(props, "raised", f"{call} {st} raised {e}", dict(site, sig=e.sig()))
        post = self.post_snapshot(props, site, call)
        if post.names != pre.names:
            raise Tagged(props, "subsystems-changed", f"{call} changed the set of live subsystems", site)
        a, b, _ = align(pre, post, pre.names)
        if unnormalised(pre) and abs(np.trace(b)) > 1e-12:
            a, b = unit(a), unit(b)
        td = ref.trace_distance(a, b)
        slack = 0.0
        if call in ("contract", "env_contract"):
            # documented tolerance of contract(tol=1e-6): a nearly pure matrix may be replaced by its
            # dominant eigenvector; that moves the state by about the purity deficit
            for x in addressed:
                bb, ab = pre.block_of(x), post.block_of(x)
                if bb.rep == "matrix" and ab.rep != "matrix":
                    deficit = 1.0 - ref.purity(bb.rho())
                    if 1e-15 < deficit < 1e-5:
                        slack = max(slack, 2.0 * deficit)
        if td > 1e-9 + slack:
            raise Tagged(props, "state-changed", f"{call} {({k: v for k, v in st.items() if k not in ('k',)})} moved the joint state by {td:.3e}", dict(site, what="state"),
                         expected=(list(pre.names), list(pre.dims), pre.rho))
        # representation rules for expand / contract (C08)
        if call in ("expand", "env_expand", "ce_expand"):
            for x in addressed:
                before = levels_before[x]
                after = post.block_of(x).rep
                order = ["label", "vector", "matrix"]
                if call == "expand" and order.index(after) != min(2, order.index(before) + 1) and not (pre.block_of(x).kind != "own"):
                    raise Tagged(["C08"], "expand-level", f"expand() moved {x} from {before} to {after}", dict(site, what="level"))
                if order.index(after) < order.index(before):
                    raise Tagged(["C08"], "expand-level", f"expand lowered {x} from {before} to {after}", dict(site, what="level"))
        if call in ("contract", "env_contract"):
            for x in addressed:
                before = pre.block_of(x)
                after = post.block_of(x)
                order = ["label", "vector", "matrix"]
                if order.index(after.rep) > order.index(before.rep):
                    raise Tagged(["C08"], "contract-level", f"contract raised the level of {x}", dict(site, what="level"))
                if after.rep == before.rep and after.signature() != before.signature():
                    raise Tagged(["C08"], "contract-touched", f"contract did not lower the level of {x} but rewrote its data", dict(site, what="rewritten"))
        self.invariants(pre, post, addressed, site, allow_merge=allow_merge or call in ("new_ce",))
        self.labels.append("struct:" + call)
        return dict(outcome="done", pre=pre, post=post, site=site, td=td)

    # -- partial trace -----------------------------------------------------------------------
    def do_trace_out(self, st):
        w = self.w
        targets = st["targets"]
        self.require_live(targets)
        if len(set(targets)) != len(targets):
            raise Inapplicable("duplicate targets")
        entry = st["entry"]
        holder = self.entry_obj(entry, targets)
        objs = [w.obj[t] for t in targets]
        if entry == "state":
            if len(targets) != 1:
                raise Inapplicable("state entry takes one")
            fn = lambda: objs[0].trace_out()
        elif entry == "env":
            if len(targets) not in (1, 2):
                raise Inapplicable("env arity")
            fn = lambda: holder.trace_out(*objs)
        else:
            # CompositeEnvelope.trace_out answers for subsystems stored in its product spaces
            if not any(isinstance(o.index, (tuple, list)) for o in objs):
                raise Inapplicable("ce.trace_out needs a member of a product space")
            fn = lambda: holder.trace_out(*objs)
        pre = self.snap()
        site = site_of(w, pre, targets, "ce" if entry.startswith("ce") else entry, "trace_out",
                       dict(nkeep=len(targets), spread=len({pre.where[t] for t in targets})))
        idx = [pre.names.index(t) for t in targets]
        want = ref.ptrace(pre.rho, pre.dims, idx)
        site["mixed_reduced"] = bool(ref.purity(want) < 1 - 1e-9)
        involved = [pre.blocks[i] for i in {pre.where[t] for t in targets}]
        merged_is_vector = all(b.rep != "matrix" for b in involved) and sum(len(b.members) for b in involved) > len(targets)
        # root-cause model of R5: what the amplitude-sum "partial trace" returns differs from the truth
        site["r5_trigger"] = bool(merged_is_vector and (site["mixed_reduced"] or r5_zero_sum(pre, targets) or r5_sum_ray_differs(pre, targets, want)))
        ntraced = sum(len(pre.blocks[b].members) for b in {pre.where[t] for t in targets}) - len(targets)
        site["ntraced"] = min(ntraced, 3)
        try:
            val = libcall(fn)
        except LibRaised as e:
            raise Tagged(["C02"], "raised", f"trace_out via {entry} of {targets} raised {e}", dict(site, sig=e.sig()))
        post = self.post_snapshot(["C02"], site, "trace_out")
        a, b, _ = align(pre, post, pre.names)
        td = ref.trace_distance(a, b)
        if td > 1e-9:
            raise Tagged(["C02"], "state-changed", f"trace_out via {entry} of {targets} moved the joint state by {td:.3e}", dict(site, what="state"),
                         expected=(list(pre.names), list(pre.dims), pre.rho))
        # interpret the return value as a state
        D = int(np.prod([pre.dims[i] for i in idx]))
        got = self.value_as_state(val, D, w.kind[targets[0]] if len(targets) == 1 else None)
        if got is None:
            raise Tagged(["C02"], "trace-out-value", f"trace_out via {entry} of {targets} returned something of shape {getattr(val, 'shape', type(val))} for total dimension {D}", dict(site, what="shape"))
        if unnormalised(pre) and abs(np.trace(got)) > 1e-12:
            got, want = unit(got), unit(want)
        tdv = ref.trace_distance(got, want)
        if tdv > 1e-8:
            raise Tagged(["C02"], "trace-out-value", f"trace_out via {entry} of {targets} (storage {site['storage']}/{site['rep']}, {ntraced} traced out) is {tdv:.3e} away from the true partial trace",
                         dict(site, what="value"))
        self.invariants(pre, post, targets, site, allow_merge=True)
        if site["mixed_reduced"]:
            self.nontrivial = True
        self.labels.append(f"trace_out:{site['entry']}/{site['storage']}/{site['rep']}")
        return dict(outcome="done", pre=pre, post=post, site=site)

    def value_as_state(self, val, D: int, kind: Optional[str]):
        from photon_weave.state.polarization import PolarizationLabel

        if isinstance(val, PolarizationLabel):
            b = Block("own", ["x"], [2], 0, "label", val.value, "tmp")
            return b.rho()
        if isinstance(val, (int, np.integer)) and not isinstance(val, bool):
            if 0 <= int(val) < D:
                return ref.basis_rho(D, int(val))
            # a Fock label with undeclared dimension
            return None
        arr = np.asarray(val)
        if D == 1 and arr.shape == (1, 1):
            # a one-dimensional space has a single state; scale/phase of the entry mean nothing
            return np.ones((1, 1), complex) if abs(arr[0, 0]) > 1e-12 else np.zeros((1, 1), complex)
        if arr.shape == (D, 1) and D != 1:
            nrm = np.linalg.norm(arr)
            if nrm < 1e-12:
                return np.zeros((D, D), complex)
            # scale/phase of a returned vector carry no physical meaning: compare the ray
            return ref.pure_rho(arr / nrm)
        if arr.shape == (D, D):
            return np.array(arr, complex)
        return None

    # -- channels ------------------------------------------------------------------------------
    def do_kraus(self, st):
        w = self.w
        targets = st["targets"]
        self.require_live(targets)
        if len(set(targets)) != len(targets):
            raise Inapplicable("dup")
        entry = st["entry"]
        holder = self.entry_obj(entry, targets)
        objs = [w.obj[t] for t in targets]
        if entry == "state" and len(targets) != 1:
            raise Inapplicable("arity")
        if entry == "env" and len(targets) > 2:
            raise Inapplicable("arity")
        pre = self.snap()
        dims = [pre.dim_of(t) for t in targets]
        # the library needs declared dimensions to size the operators
        for t in targets:
            if w.dim(t) != pre.dim_of(t):
                raise Inapplicable("undeclared fock dimension")
        D = int(np.prod(dims))
        if D > 36:
            raise Inapplicable("operator too large")
        ks = kraus_ops(st["kseed"], D, st["nops"], st.get("unitary", False))
        import jax.numpy as jnp

        jks = [jnp.array(k) for k in ks]
        site = site_of(w, pre, targets, "ce" if entry.startswith("ce") else entry, "kraus",
                       dict(ntargets=len(targets), nops=len(ks), spread=len({pre.where[t] for t in targets})))
        site["reps"] = "/".join(sorted({pre.block_of(t).rep for t in targets}))
        if entry == "state":
            fn = lambda: objs[0].apply_kraus(jks)
        else:
            fn = lambda: holder.apply_kraus(jks, *objs)
        try:
            libcall(fn)
        except LibRaised as e:
            raise Tagged(["C06"], "raised", f"apply_kraus via {entry} on {targets} raised {e}", dict(site, sig=e.sig()))
        post = self.post_snapshot(["C06"], site, "kraus")
        if post.names != pre.names:
            raise Tagged(["C06"], "subsystems-changed", "channel changed the set of live subsystems", site)
        want = ref.apply_kraus(pre.rho, pre.dims, [pre.names.index(t) for t in targets], ks)
        a, b, common = align(pre, post, pre.names)
        wantp = ref.pad(want, pre.dims, common)
        if unnormalised(pre):
            b, wantp = unit(b), unit(wantp)
        td = ref.trace_distance(b, wantp)
        if td > TOL_EXACT + contraction_slack(post, wantp, pre.names, common):
            trg = float(np.real(np.trace(b)))
            raise Tagged(["C06"], "differs", f"apply_kraus via {entry} on {targets} ({len(ks)} operators, storage {site['storage']}/{site['reps']}): distance {td:.3e} from sum K rho K+ (trace {trg:.6f})",
                         dict(site, what="trace" if abs(trg - 1) > 1e-6 else "state"),
                         expected=None if unnormalised(pre) else (list(pre.names), list(common), wantp))
        # representation rule: a vector/label report is only acceptable for a pure result
        for t in targets:
            blk = post.block_of(t)
            if blk.rep != "matrix":
                members = blk.members
                red = ref.ptrace(want, pre.dims, [pre.names.index(m) for m in members])
                if ref.purity(red) < 1 - 1e-5:
                    raise Tagged(["C06"], "mixture-hidden", f"after the channel {members} is reported as {blk.rep} but the true state has purity {ref.purity(red):.6f}", dict(site, what="rep"))
        self.invariants(pre, post, targets, site, allow_merge=len(targets) >= 2)
        if len(ks) >= 2:
            self.nontrivial = True
        self.labels.append(f"kraus:{site['entry']}/{site['storage']}/{site['reps']}/{len(targets)}")
        return dict(outcome="applied", pre=pre, post=post, site=site)

    # -- projective measurement ------------------------------------------------------------------
    def measured_set(self, entry: str, targets: List[str], sep: bool) -> List[str]:
        """which subsystems the call is specified to measure"""
        w = self.w
        out = list(targets)
        if entry == "env" and not targets:
            env = None
        if not sep:
            for t in list(out):
                p = w.partner(t)
                if p is not None and p not in out and self.live(p):
                    out.append(p)
        return out

    def do_measure(self, st):
        w = self.w
        entry = st["entry"]
        targets = list(st["targets"])
        sep = bool(st.get("sep", False))
        destructive = bool(st.get("destructive", True))
        self.require_live(targets)
        if len(set(targets)) != len(targets):
            raise Inapplicable("dup")
        if entry == "state":
            if len(targets) != 1:
                raise Inapplicable("arity")
            holder = w.obj[targets[0]]
            fn = lambda: holder.measure(separate_measurement=sep, destructive=destructive)
        elif entry == "env":
            holder = self.entry_obj(entry, targets)
            if holder.measured:
                raise Inapplicable("envelope measured")
            if sep and len(targets) != 1:
                raise Inapplicable("separate measurement names one member")
            fn = lambda: holder.measure(*[w.obj[t] for t in targets], separate_measurement=sep, destructive=destructive)
        else:
            holder = self.entry_obj(entry, targets)
            fn = lambda: holder.measure(*[w.obj[t] for t in targets], separate_measurement=sep, destructive=destructive)
        pre = self.snap()
        mset = self.measured_set(entry, targets, sep)
        if entry == "env" and not sep:
            ename = w.env_of[targets[0]]
            mset = [m for m in (ename + ".f", ename + ".p") if self.live(m)]
        for m in mset:
            if not self.live(m):
                raise Inapplicable("partner destroyed")
        site = site_of(w, pre, targets, "ce" if entry.startswith("ce") else entry, "measure",
                       dict(sep=sep, destructive=destructive, nmeasured=len(mset), spread=len({pre.where[t] for t in mset})))
        site["reps"] = "/".join(sorted({pre.block_of(t).rep for t in mset}))
        site["storages"] = "/".join(sorted({pre.block_of(t).kind for t in mset}))
        # run with a script that forces generated branches (only outcomes of non-zero probability)
        script = list(st.get("script", []))
        SAMPLER.reset(script=None)
        forced = _ScriptForcer(script)
        SAMPLER.forcer = forced
        try:
            try:
                out = libcall(fn)
            finally:
                SAMPLER.forcer = None
        except LibRaised as e:
            raise Tagged(["C04", "C05"], "raised", f"measure via {entry} of {targets} (sep={sep}, destructive={destructive}) raised {e}", dict(site, sig=e.sig()))
        log = list(SAMPLER.log)
        post = self.post_snapshot(["C05"], site, "measure")
        # ---- outcome dictionary: keys by identity ----
        name_of = {id(s): n for n, s in w.subs}
        if not isinstance(out, dict):
            raise Tagged(["C05"], "outcome-dict", f"measure returned {type(out).__name__}", dict(site, what="type"))
        keys = []
        for kobj, v in out.items():
            if id(kobj) not in name_of:
                raise Tagged(["C05"], "outcome-dict", "outcome dictionary holds an unknown object", dict(site, what="foreign"))
            keys.append(name_of[id(kobj)])
        if sorted(keys) != sorted(mset) or len(keys) != len(set(keys)):
            raise Tagged(["C05", "C18"], "outcome-dict", f"measure via {entry} of {targets} (sep={sep}) reported {sorted(keys)}, specified to measure {sorted(mset)}",
                         dict(site, what="keys", missing=len(set(mset) - set(keys)), extra=len(set(keys) - set(mset))))
        outcomes = {name_of[id(kobj)]: int(v) for kobj, v in out.items()}
        # ---- every draw of the call uses its own key (otherwise later draws copy earlier ones) ----
        ks = [tuple(r["key"]) for r in log]
        if len(set(ks)) != len(ks):
            raise Tagged(["C04", "C14"], "key-reuse", f"measure via {entry} of {sorted(mset)}: {len(ks)} draws used only {len(set(ks))} distinct PRNG keys", dict(site, what="key"))
        # ---- Born rule along the path ----
        for rec in log:
            p = rec["p"]
            if p is None:
                continue
            if np.min(p) < -1e-12 or not np.all(np.isfinite(p)):
                raise Tagged(["C04"], "negative-probability", f"probability vector {p.tolist()} handed to the sampler", dict(site, what="negative"))
            if p[rec["chosen"]] <= P_EPS:
                raise Tagged(["C04"], "zero-probability-outcome", "an outcome of probability zero was reported", dict(site, what="zero"))
        lib_prob = 1.0
        for rec in log:
            p = rec["p"]
            if p is not None:
                lib_prob *= float(p[rec["chosen"]] / np.sum(p))
        rho = unit(pre.rho) if unnormalised(pre) else pre.rho
        dims = list(pre.dims)
        names = list(pre.names)
        born = None
        ok_range = all(0 <= outcomes[m] < pre.dim_of(m) for m in mset)
        if not ok_range:
            raise Tagged(["C04", "C05"], "outcome-range", f"outcome {outcomes} outside the subsystems' dimensions", dict(site, what="range"))
        proj = rho
        pd = dims
        pn = names
        for m in mset:
            proj, pd = ref.project(proj, pd, pn.index(m), outcomes[m])
            pn = [x for x in pn if x != m]
        born = float(np.real(np.trace(proj))) if proj.size else 1.0
        # documented purity tolerance (1e-6) of contract(): a nearly pure density matrix may be replaced by its
        # dominant eigenvector between two draws of one call; the conditional probabilities of the later draws
        # then move by about the purity deficit of the block (same slack as for states, see contraction_slack)
        born_slack = 0.0
        if len([r_ for r_ in log if r_["p"] is not None]) > 1:
            for bi_ in {pre.where[m_] for m_ in mset if m_ in pre.where}:
                b_ = pre.blocks[bi_]
                if b_.rep == "matrix":
                    deficit = 1.0 - ref.purity(unit(b_.rho()))
                    if 1e-15 < deficit < 1e-5:
                        born_slack += 2.0 * deficit
        if abs(lib_prob - born) > 1e-8 + born_slack:
            raise Tagged(["C04"], "born", f"measure via {entry} of {sorted(mset)} (storage {site['storages']}/{site['reps']}): outcome {outcomes} was drawn with probability {lib_prob:.9f}, Born rule gives {born:.9f}",
                         dict(site, what="probability"))
        if born <= 1e-10:
            raise Tagged(["C04"], "zero-probability-outcome", f"outcome {outcomes} has Born probability {born:.3e}", dict(site, what="zero"))
        # ---- collapse and retirement ----
        survivors_expected = proj / born
        dead_expected = [m for m in mset if destructive and w.kind[m] != "custom"]
        kept = [m for m in mset if m not in dead_expected]
        for m in dead_expected:
            if self.live(m):
                raise Tagged(["C05"], "not-destroyed", f"{m} was measured destructively but is not flagged measured", dict(site, what="flag"))
            o = w.obj[m]
            if o.state is not None or o.index is not None:
                raise Tagged(["C05"], "not-destroyed", f"{m} measured destructively still holds state/index", dict(site, what="state"))
        for n in pre.names:
            if n not in dead_expected and not self.live(n):
                raise Tagged(["C05"], "wrongly-destroyed", f"{n} was destroyed although the call was not specified to destroy it", dict(site, what="flag"))
        # expected joint state over post.names
        exp_names = pn + kept
        exp_dims = pd + [pre.dim_of(m) for m in kept]
        exp = survivors_expected if survivors_expected.size else np.ones((1, 1), complex)
        for m in kept:
            exp = np.kron(exp, ref.basis_rho(pre.dim_of(m), outcomes[m]))
        if sorted(post.names) != sorted(exp_names):
            raise Tagged(["C05"], "live-set", f"live subsystems after measurement {post.names}, expected {sorted(exp_names)}", dict(site, what="live"))
        if exp_names:
            order = [exp_names.index(n) for n in post.names]
            exp, ed = ref.permute(exp, exp_dims, order)
            cd = [max(a_, b_) for a_, b_ in zip(ed, post.dims)]
            got_m = ref.pad(post.rho, post.dims, cd)
            if unnormalised(pre):
                got_m = unit(got_m)
            td = ref.trace_distance(got_m, ref.pad(exp, ed, cd))
            if td > TOL_EXACT + contraction_slack(post, ref.pad(exp, ed, cd), post.names, cd):
                trg = float(np.real(np.trace(post.rho)))
                raise Tagged(["C05"], "collapse", f"after measuring {sorted(mset)} via {entry} (storage {site['storages']}/{site['reps']}, outcome {outcomes}) the joint state of {post.names} is {td:.3e} away from the projected state (trace {trg:.6f})",
                             dict(site, what="trace" if abs(trg - 1) > 1e-6 else "state"),
                             expected=None if unnormalised(pre) else (list(post.names), list(cd), ref.pad(exp, ed, cd)))
        for m in kept:
            blk = post.block_of(m)
            if len(blk.members) != 1:
                raise Tagged(["C05"], "not-alone", f"non-destructively measured {m} still sits in a product space", dict(site, what="alone"))
            if w.obj[m].index is not None:
                raise Tagged(["C05", "C13"], "stale-index", f"non-destructively measured {m} holds its own state but its index is {w.obj[m].index!r}", dict(site, what="index"))
        if self.probe_remeasure:
            # "re-measuring it returns the same value": ask every entry point that can address it
            for m in kept:
                o = w.obj[m]
                calls = [("state", lambda o=o: o.measure(separate_measurement=True, destructive=False))]
                for cname in w.ce_of_sub(m):
                    calls.append((cname, lambda o=o, c=w.ces[cname]: c.measure(o, separate_measurement=True, destructive=False)))
                for how, call in calls:
                    SAMPLER.reset()
                    try:
                        again = libcall(call)
                    except LibRaised as e:
                        raise Tagged(["C05"], "remeasure", f"re-measuring non-destructively measured {m} via {how} raised {e}", dict(site, what="raised", sig=e.sig()))
                    vals = [int(v) for k_, v in again.items() if k_ is o] if isinstance(again, dict) else []
                    if vals != [outcomes[m]]:
                        raise Tagged(["C05"], "remeasure", f"re-measuring {m} via {how} returned {again!r}, expected its outcome {outcomes[m]}", dict(site, what="value"))
        self.invariants(pre, post, mset, site, allow_merge=False, removed=mset)
        nz = [float(np.max(ref.diag_marginal(pre.rho, pre.dims, pre.names.index(m)))) for m in mset]
        if any(x < 1 - 1e-3 for x in nz):
            self.nontrivial = True
        self.labels.append(f"measure:{site['entry']}/{site['storages']}/{site['reps']}/sep={sep}/d={destructive}")
        return dict(outcome="measured", pre=pre, post=post, site=site, outcomes=outcomes)


class _ScriptForcer:
    """chooses, for every draw with at least two outcomes of non-zero probability, the
    (script[pos] mod m)-th of those m outcomes; a point-mass draw returns its only outcome and
    consumes no script entry (so programs that differ only in whether a deterministic draw is
    made at all stay on the same branch). Past the end of the script the real sampler decides,
    unless TOTAL is set (then the first possible outcome is taken)."""

    TOTAL = False

    def __init__(self, script):
        self.script = list(script)
        self.pos = 0

    def choose(self, k: int, p: Optional[np.ndarray], n: int) -> Optional[int]:
        if p is None:
            if self.pos < len(self.script):
                self.pos += 1
                return int(self.script[self.pos - 1]) % n
            return 0 if self.TOTAL else None
        tot = max(float(np.sum(p)), 1e-300)
        nz = [i for i in range(len(p)) if p[i] / tot > 1e-9]
        if not nz:
            return None
        if len(nz) == 1:
            return nz[0]
        if self.pos < len(self.script):
            self.pos += 1
            return nz[int(self.script[self.pos - 1]) % len(nz)]
        return nz[0] if self.TOTAL else None


# ----------------------------------------------------------------------------------------
# generalised measurement (C09) and Fock resize (C10): added as methods of Machine
# ----------------------------------------------------------------------------------------
def _do_povm(self, st):
    import itertools

    import jax.numpy as jnp

    w = self.w
    targets = list(st["targets"])
    destructive = bool(st.get("destructive", True))
    self.require_live(targets)
    if len(set(targets)) != len(targets):
        raise Inapplicable("dup")
    entry = st["entry"]
    holder = self.entry_obj(entry, targets)
    objs = [w.obj[t] for t in targets]
    if entry == "state" and len(targets) != 1:
        raise Inapplicable("arity")
    if entry == "env" and len(targets) > 2:
        raise Inapplicable("arity")
    if entry == "env" and holder.measured:
        raise Inapplicable("envelope measured")
    pre = self.snap()
    for t in targets:
        if w.dim(t) != pre.dim_of(t):
            raise Inapplicable("undeclared fock dimension")
    dims = [pre.dim_of(t) for t in targets]
    D = int(np.prod(dims))
    if D > 24:
        raise Inapplicable("operator too large")
    ms = povm_ops(st["pseed"], D, st["nops"], st.get("projective", False), st.get("unsharp"))
    jms = [jnp.array(m) for m in ms]
    site = site_of(w, pre, targets, "ce" if entry.startswith("ce") else entry, "povm",
                   dict(ntargets=len(targets), nops=len(ms), destructive=destructive, projective=bool(st.get("projective", False)), unsharp=st.get("unsharp") is not None,
                        spread=len({pre.where[t] for t in targets})))
    site["reps"] = "/".join(sorted({pre.block_of(t).rep for t in targets}))
    site["storages"] = "/".join(sorted({pre.block_of(t).kind for t in targets}))
    if entry == "state":
        partial = bool(st.get("partial", False))
        site["partial"] = partial
        fn = lambda: objs[0].measure_POVM(jms, destructive=destructive, partial=partial)
    else:
        fn = lambda: holder.measure_POVM(jms, *objs, destructive=destructive)
    SAMPLER.reset()
    SAMPLER.forcer = _ScriptForcer(list(st.get("script", [])))
    try:
        try:
            ret = libcall(fn)
        finally:
            SAMPLER.forcer = None
    except LibRaised as e:
        raise Tagged(["C09"], "raised", f"measure_POVM via {entry} on {targets} (destructive={destructive}) raised {e}", dict(site, sig=e.sig()))
    log = list(SAMPLER.log)
    post = self.post_snapshot(["C09"], site, "povm")
    name_of = {id(s): n for n, s in w.subs}
    if not (isinstance(ret, tuple) and len(ret) == 2 and isinstance(ret[1], dict)):
        raise Tagged(["C09"], "return-shape", f"measure_POVM returned {ret!r}", dict(site, what="type"))
    outcome, extra = int(ret[0]), {}
    for kobj, v in ret[1].items():
        if id(kobj) not in name_of:
            raise Tagged(["C09"], "return-shape", "unknown object in the outcome dictionary", dict(site, what="foreign"))
        extra[name_of[id(kobj)]] = int(v)
    if not log or log[0]["n"] != len(ms):
        raise Tagged(["C09"], "no-povm-draw", f"first random draw has {log[0]['n'] if log else 0} outcomes, expected {len(ms)}", dict(site, what="draw"))
    if outcome != log[0]["chosen"]:
        raise Tagged(["C09"], "returned-outcome", f"returned outcome {outcome} but the sampler chose {log[0]['chosen']}", dict(site, what="index"))
    # ---- probabilities ----
    tidx = [pre.names.index(t) for t in targets]
    base_rho = unit(pre.rho) if unnormalised(pre) else pre.rho
    red = ref.ptrace(base_rho, pre.dims, tidx)
    want_p = np.array([float(np.real(np.trace(m @ red @ m.conj().T))) for m in ms])
    got_p = np.asarray(log[0]["p"], float)
    if np.min(got_p) < -1e-9 or not np.all(np.isfinite(got_p)):
        raise Tagged(["C09"], "probabilities", f"probability vector {got_p.tolist()}", dict(site, what="negative"))
    got_p = got_p / np.sum(got_p)
    if np.max(np.abs(got_p - want_p)) > 1e-8:
        raise Tagged(["C09"], "probabilities", f"measure_POVM via {entry} on {targets} (storage {site['storages']}/{site['reps']}): p = {np.round(got_p, 6).tolist()} but Tr(M rho M+) = {np.round(want_p, 6).tolist()}",
                     dict(site, what="value"))
    if want_p[outcome] <= 1e-10:
        raise Tagged(["C09"], "zero-probability-outcome", "outcome of probability zero reported", dict(site, what="zero"))
    # ---- fate of subsystems ----
    dead_now = [n for n in pre.names if not self.live(n)]
    partners = [w.partner(t) for t in targets if w.partner(t) is not None and w.partner(t) not in targets]
    if not destructive:
        if dead_now:
            raise Tagged(["C09"], "destroyed-in-non-destructive", f"non-destructive measure_POVM via {entry} on {targets} destroyed {dead_now}", dict(site, what="destroyed"))
    else:
        must = [t for t in targets if w.kind[t] != "custom"]
        miss = [t for t in must if self.live(t)]
        if miss:
            raise Tagged(["C09"], "not-destroyed", f"destructive measure_POVM left {miss} alive", dict(site, what="alive"))
        wrong = [n for n in dead_now if n not in targets and n not in partners]
        if wrong:
            raise Tagged(["C09"], "wrongly-destroyed", f"measure_POVM destroyed {wrong}", dict(site, what="bystander"))
    for n in extra:
        if n not in partners:
            raise Tagged(["C09"], "return-shape", f"outcome dictionary reports {n}, which is neither addressed nor an envelope partner", dict(site, what="keys"))
    # ---- post state ----
    m = ms[outcome]
    after = ref.apply_op(base_rho, pre.dims, tidx, m) / want_p[outcome]
    names, dms = list(pre.names), list(pre.dims)
    # reported projective outcomes of partners
    cond_prob = 1.0
    for n, v in extra.items():
        if not (0 <= v < pre.dim_of(n)):
            raise Tagged(["C09"], "return-shape", f"partner outcome {v} out of range", dict(site, what="range"))
        after, dms2 = ref.project(after, dms, names.index(n), v)
        pr = float(np.real(np.trace(after)))
        if pr <= 1e-10:
            raise Tagged(["C09"], "zero-probability-outcome", f"partner outcome {n}={v} has probability {pr:.2e}", dict(site, what="zero"))
        after = after / pr
        if n in post.names:  # measured non-destructively: stays, in its basis state
            after = np.kron(after, ref.basis_rho(pre.dim_of(n), v))
            names = [x for x in names if x != n] + [n]
            dms = dms2 + [pre.dim_of(n)]
        else:
            names = [x for x in names if x != n]
            dms = dms2
    hidden = [n for n in names if n not in post.names]
    for n in post.names:
        if n not in names:
            raise Tagged(["C09"], "live-set", f"{n} is live after the call but should not exist", dict(site, what="live"))
    # hidden (destroyed, unreported) subsystems: traced out, or conditioned on some unreported projective outcome
    cands = []
    keep = [names.index(n) for n in post.names]
    cands.append(("traced", ref.ptrace(after, dms, keep) if post.names else np.ones((1, 1), complex)))
    hdims = [dms[names.index(h)] for h in hidden]
    if hidden and int(np.prod(hdims)) <= 36:
        for assign in itertools.product(*[range(d) for d in hdims]):
            cur, cn, cd = after, list(names), list(dms)
            ok = True
            for h, v in zip(hidden, assign):
                cur, cd = ref.project(cur, cd, cn.index(h), v)
                cn = [x for x in cn if x != h]
            pr = float(np.real(np.trace(cur)))
            if pr <= 1e-10:
                continue
            cur = cur / pr
            order = [cn.index(n) for n in post.names]
            cur, _ = ref.permute(cur, cd, order) if order else (cur, cd)
            cands.append((f"conditioned{assign}", cur))
    pd = [dms[names.index(n)] for n in post.names]
    best = None
    for label, cand in cands:
        cdm = [max(a_, b_) for a_, b_ in zip(pd, post.dims)]
        got_p_ = ref.pad(post.rho, post.dims, cdm) if post.names else None
        if post.names and unnormalised(pre):
            got_p_ = unit(got_p_)
        td = ref.trace_distance(got_p_, ref.pad(cand, pd, cdm)) if post.names else 0.0
        if post.names:
            td = max(0.0, td - contraction_slack(post, ref.pad(cand, pd, cdm), post.names, cdm))
        if best is None or td < best[0]:
            best = (td, label)
    if best[0] > TOL_EXACT:
        trg = float(np.real(np.trace(post.rho)))
        raise Tagged(["C09"], "post-state", f"after measure_POVM via {entry} on {targets} (outcome {outcome}, destructive={destructive}, storage {site['storages']}/{site['reps']}) the state of {post.names} is {best[0]:.3e} "
                     f"away from (MxI)rho(MxI)+/p (best candidate: {best[1]}; trace {trg:.6f})", dict(site, what="trace" if abs(trg - 1) > 1e-6 else "state"))
    removed = [n for n in pre.names if n not in post.names]
    self.invariants(pre, post, targets + [p_ for p_ in partners if p_ in extra or p_ in removed], site, allow_merge=len(targets) >= 2, removed=removed)
    if not st.get("projective", False):
        self.nontrivial = True
    self.labels.append(f"povm:{site['entry']}/{site['storages']}/{site['reps']}/n={len(targets)}/d={destructive}")
    return dict(outcome="measured", pre=pre, post=post, site=site)


def _do_resize(self, st):
    w = self.w
    t = st["target"]
    n = int(st["n"])
    self.require_live([t])
    if w.kind[t] != "fock":
        raise Inapplicable("not a fock")
    entry = st["entry"]
    holder = self.entry_obj(entry, [t])
    f = w.obj[t]
    if entry == "state":
        fn = lambda: f.resize(n)
    elif entry == "env":
        fn = lambda: holder.resize_fock(n)
    else:
        fn = lambda: holder.resize_fock(n, f)
    pre = self.snap()
    if w.dim(t) != pre.dim_of(t):
        raise Inapplicable("undeclared fock dimension")
    d0 = pre.dim_of(t)
    idx = pre.names.index(t)
    diag = ref.diag_marginal(pre.rho, pre.dims, idx)
    beyond = float(np.sum(diag[n:])) if n < d0 else 0.0
    top = int(np.nonzero(diag > 1e-15)[0][-1])
    site = site_of(w, pre, [t], "ce" if entry.startswith("ce") else entry, "resize",
                   dict(direction="up" if n > d0 else ("same" if n == d0 else "down"), edge=int(np.clip(n - (top + 1), -2, 2)), nonpositive=n < 1))
    site["r5_trigger"] = bool(n < d0 and r5_trigger(pre, [t], [t]))
    try:
        ret = libcall(fn)
    except LibRaised as e:
        raise Tagged(["C10"], "raised", f"resize({n}) via {entry} on {t} (dimension {d0}, top occupied level {top}) raised {e}", dict(site, sig=e.sig()))
    post = self.post_snapshot(["C10"], site, "resize")
    d1 = w.dim(t)
    if d1 != post.dim_of(t):
        raise Tagged(["C10"], "dimension-mismatch", f"reported dimension {d1} but the stored Fock axis has length {post.dim_of(t)}", dict(site, what="dims"))
    a, b, _ = align(pre, post, pre.names)
    moved = ref.trace_distance(a, b)
    if ret is True:
        if n >= 1 and d1 != n:
            raise Tagged(["C10"], "dimension-not-set", f"resize({n}) returned True but the dimension is {d1}", dict(site, what="dims"))
        if beyond > 1e-9:
            raise Tagged(["C10", "C17"], "population-lost", f"resize({n}) via {entry} on {t} (storage {site['storage']}/{site['rep']}) returned True although {beyond:.3e} of the population lies at or above level {n}", dict(site, what="lost"))
        if moved > 1e-9:
            raise Tagged(["C10"], "state-changed", f"successful resize({n}) moved the joint state by {moved:.3e}", dict(site, what="state"),
                         expected=(list(pre.names), list(pre.dims), pre.rho))
    elif ret is False:
        if d1 != d0:
            raise Tagged(["C10", "C17"], "failed-but-changed", f"resize({n}) returned False but the dimension went {d0} -> {d1}", dict(site, what="dims"))
        if moved > 1e-12:
            raise Tagged(["C10", "C17"], "failed-but-changed", f"resize({n}) returned False but the joint state moved by {moved:.3e}", dict(site, what="state"),
                         expected=(list(pre.names), list(pre.dims), pre.rho))
        if n > d0:
            raise Tagged(["C10"], "grow-refused", f"resize({n}) upward from {d0} returned False", dict(site, what="refused"))
    else:
        raise Tagged(["C10"], "return-value", f"resize returned {ret!r}", dict(site, what="type"))
    self.invariants(pre, post, [t], site, allow_merge=False)
    if abs(n - (top + 1)) <= 1:
        self.nontrivial = True
    self.labels.append(f"resize:{site['entry']}/{site['storage']}/{site['rep']}/{site['direction']}/{'ok' if ret else 'refused'}")
    return dict(outcome="resized" if ret else "refused", pre=pre, post=post, site=site)


def _do_set_contraction(self, st):
    from photon_weave.photon_weave import Config

    Config().set_contraction(bool(st["value"]))
    return dict(outcome="set")


Machine.do_povm = _do_povm
Machine.do_resize = _do_resize
Machine.do_set_contraction = _do_set_contraction


# ----------------------------------------------------------------------------------------
# invalid requests (C17): must be rejected and leave everything as it was
# ----------------------------------------------------------------------------------------
def _do_invalid(self, st):
    import jax.numpy as jnp
    from photon_weave.operation import (
        CompositeOperationType,
        CustomStateOperationType,
        FockOperationType,
        Operation,
        PolarizationOperationType,
    )

    w = self.w
    fault = st["fault"]
    entry = st.get("entry", "state")
    targets = list(st.get("targets", []))
    for t in targets:
        if t not in w.obj:
            raise Inapplicable("unknown target")
    dead = [t for t in targets if not self.live(t)]
    if fault != "use_destroyed" and dead:
        raise Inapplicable("target destroyed")
    pre = self.snap()
    live_t = [t for t in targets if t in pre.where]
    site = site_of(w, pre, live_t or targets, "ce" if entry.startswith("ce") else entry, "invalid", dict(fault=fault)) if live_t else dict(action="invalid", fault=fault, entry=entry, storage="dead", rep="none", kind=w.kind.get(targets[0], "?") if targets else "?")
    objs = [w.obj[t] for t in targets]
    rng_seed = int(st.get("seed", 0))

    def holder():
        if entry == "state":
            return objs[0]
        if entry == "env":
            return w.envs[w.env_of[targets[0]]]
        return w.ces[entry]

    expect_false = False
    if fault in ("kraus_not_tp", "kraus_wrong_size"):
        self.entry_obj(entry, targets)
        for t in targets:
            if w.dim(t) != pre.dim_of(t):
                raise Inapplicable("undeclared fock dimension")
        D = int(np.prod([pre.dim_of(t) for t in targets]))
        if D > 36:
            raise Inapplicable("too large")
        if fault == "kraus_not_tp":
            ks = kraus_ops(rng_seed, D, max(2, st.get("nops", 2)), False)
            mode = st.get("mode", 0) % 3
            ks = [1.3 * k for k in ks] if mode == 0 else (ks[:-1] if mode == 1 else [ks[0], 0.5 * ks[1]] + ks[2:])
        else:
            wsz = [x for x in (D + 1, 1, max(1, D - 1)) if x != D]
            wd = wsz[st.get("mode", 0) % len(wsz)]
            site["wrong_dim"] = "1" if wd == 1 else ("larger" if wd > D else "smaller")
            ks = kraus_ops(rng_seed, wd, st.get("nops", 2), False)
        jks = [jnp.array(k) for k in ks]
        fn = (lambda: objs[0].apply_kraus(jks)) if entry == "state" else (lambda: holder().apply_kraus(jks, *objs))
    elif fault == "povm_wrong_size":
        self.entry_obj(entry, targets)
        for t in targets:
            if w.dim(t) != pre.dim_of(t):
                raise Inapplicable("undeclared fock dimension")
        D = int(np.prod([pre.dim_of(t) for t in targets]))
        if D > 24:
            raise Inapplicable("too large")
        wsz = [x for x in (D + 1, 1, max(1, D - 1)) if x != D]
        wd = wsz[st.get("mode", 0) % len(wsz)]
        site["wrong_dim"] = "1" if wd == 1 else ("larger" if wd > D else "smaller")
        ms = [jnp.array(m) for m in povm_ops(rng_seed, wd, 2, False)]
        fn = (lambda: objs[0].measure_POVM(ms)) if entry == "state" else (lambda: holder().measure_POVM(ms, *objs))
    elif fault == "custom_op_wrong_size":
        t = targets[0]
        self.entry_obj(entry, targets)
        d = pre.dim_of(t)
        wrong = [d + 1, 1, max(1, d - 1), 2 * d]
        wd = [x for x in wrong if x != d][st.get("mode", 0) % len([x for x in wrong if x != d])]
        site["wrong_dim"] = "1" if wd == 1 else ("larger" if wd > d else "smaller")
        m = jnp.array(actions.seeded_matrix(rng_seed, wd, True))
        if w.kind[t] == "pol":
            op = Operation(PolarizationOperationType.Custom, operator=m)
        elif w.kind[t] == "custom":
            op = Operation(CustomStateOperationType.Custom, operator=m)
        else:
            raise Inapplicable("fock custom operators resize the space")
        fn = self._op_caller(op, entry, targets)
    elif fault == "op_wrong_kind":
        t = targets[0]
        self.entry_obj(entry, targets)
        k = w.kind[t]
        wrong = {"pol": Operation(FockOperationType.PhaseShift, phi=0.3), "fock": Operation(PolarizationOperationType.X),
                 "custom": Operation(PolarizationOperationType.H)}[k]
        if st.get("mode", 0) % 2 == 1 and k != "custom":
            wrong = Operation(CustomStateOperationType.Custom, operator=jnp.array(actions.seeded_matrix(rng_seed, pre.dim_of(t), True)))
        fn = self._op_caller(wrong, entry, targets)
    elif fault == "outside_container":
        # a subsystem that does not belong to the composite envelope it is addressed through
        if not entry.startswith("ce") or entry not in w.ces:
            raise Inapplicable("needs a composite entry")
        mem = w.ce_members(entry)
        outs = [t for t in targets if t not in mem]
        if not outs:
            raise Inapplicable("all targets inside")
        what = st.get("mode", 0) % 3
        ce = w.ces[entry]
        if what == 0:
            kinds = [w.kind[t] for t in targets]
            if kinds == ["pol", "pol"]:
                op = Operation(CompositeOperationType.CXPolarization)
            elif len(targets) == 1:
                op = actions.make_operation({"pol": dict(type="pol:X"), "fock": dict(type="fock:PhaseShift", params=dict(phi=0.2)),
                                             "custom": dict(type="custom:Custom", useed=1, unitary=True)}[kinds[0]], [pre.dim_of(targets[0])])
            else:
                raise Inapplicable("operand kinds")
            fn = lambda: ce.apply_operation(op, *objs)
        elif what == 1:
            for t in targets:
                if w.dim(t) != pre.dim_of(t):
                    raise Inapplicable("undeclared fock dimension")
            D = int(np.prod([pre.dim_of(t) for t in targets]))
            jks = [jnp.array(k) for k in kraus_ops(rng_seed, D, 2, False)]
            fn = lambda: ce.apply_kraus(jks, *objs)
        else:
            fn = lambda: ce.combine(*objs)
    elif fault == "annihilate_vacuum":
        t = targets[0]
        if w.kind[t] != "fock":
            raise Inapplicable("not a fock")
        self.entry_obj(entry, targets)
        diag = ref.diag_marginal(pre.rho, pre.dims, pre.names.index(t))
        if float(np.sum(diag[1:])) != 0.0:
            raise Inapplicable("not exactly the vacuum")
        if st.get("mode", 0) % 3 == 2 and w.dim(t) == pre.dim_of(t) and pre.dim_of(t) >= 2:
            # the same request through a user-supplied (non-renormalising) operator: a lowering matrix or
            # a projector onto an unoccupied level gives an all-zero result on the vacuum as well
            d_ = pre.dim_of(t)
            mat = ref.destroy(d_) if st.get("seed", 0) % 2 == 0 else ref.basis_rho(d_, d_ - 1)
            site["zero_via"] = "custom"
            fn = self._op_caller(Operation(FockOperationType.Custom, operator=jnp.array(mat)), entry, targets)
        else:
            site["zero_via"] = "annihilation"
            fn = self._op_caller(Operation(FockOperationType.Annihilation), entry, targets)
    elif fault == "missing_param":
        typ = [PolarizationOperationType.RX, PolarizationOperationType.U3, FockOperationType.PhaseShift, FockOperationType.Displace,
               CompositeOperationType.NonPolarizingBeamSplitter, CustomStateOperationType.Custom, None, None][st.get("mode", 0) % 8]
        if typ is None:
            # an Expression over several subsystems without its expression / context; the operand types named in
            # the refused request differ from those of any operation the program built before
            from photon_weave.state.custom_state import CustomState
            from photon_weave.state.fock import Fock
            from photon_weave.state.polarization import Polarization

            tys = [(Fock, Polarization), (Polarization, Fock), (Fock, Fock, Polarization), (CustomState, Fock), (Polarization,), (Fock, CustomState, Fock)][rng_seed % 6]
            kw = dict(state_types=tys) if st.get("mode", 0) % 8 == 6 else dict(state_types=tys, expr=("kron", "A", "B"))
            site["construct"] = "expression"
            fn = lambda: Operation(CompositeOperationType.Expression, **kw)
        else:
            fn = lambda: Operation(typ)
    elif fault == "use_destroyed":
        if not dead:
            raise Inapplicable("nothing destroyed")
        t = dead[0]
        objs = [w.obj[t]]
        targets = [t]
        what = st.get("mode", 0) % 4
        if entry.startswith("ce") and entry not in w.ces:
            raise Inapplicable("no composite")
        if what == 0:
            op = actions.make_operation({"pol": dict(type="pol:X"), "fock": dict(type="fock:PhaseShift", params=dict(phi=0.2))}[w.kind[t]], [2])
            fn = self._op_caller(op, entry, targets)
        elif what == 1:
            d = 2 if w.kind[t] == "pol" else max(2, int(w.obj[t].dimensions))
            jks = [jnp.array(k) for k in kraus_ops(rng_seed, d, 1, True)]
            fn = (lambda: objs[0].apply_kraus(jks)) if entry == "state" else (lambda: holder().apply_kraus(jks, *objs))
        elif what == 2:
            if entry == "state":
                fn = lambda: objs[0].measure(separate_measurement=True)
            elif entry == "env":
                fn = lambda: holder().measure(objs[0], separate_measurement=True)
            else:
                fn = lambda: holder().measure(objs[0], separate_measurement=True)
        else:
            d = 2 if w.kind[t] == "pol" else max(2, int(w.obj[t].dimensions))
            ms = [jnp.array(m) for m in povm_ops(rng_seed, d, 2, True)]
            fn = (lambda: objs[0].measure_POVM(ms, partial=True)) if entry == "state" else (lambda: holder().measure_POVM(ms, *objs))
        site["use"] = ["op", "kraus", "measure", "povm"][what]
    else:
        raise ValueError(fault)

    SAMPLER.reset()
    rejected = False
    ret = None
    try:
        ret = libcall(fn)
    except LibRaised as e:
        rejected = True
        site["sig"] = e.sig()
    try:
        post = self.snap()
    except Malformed as m:
        raise Tagged(["C17"], "graph-broken-by-rejected-call", f"after the invalid request '{fault}' via {entry} on {targets}: {m.reason}", dict(site, what=m.what))
    tags = ["C17", "C05"] if fault == "use_destroyed" else ["C17"]
    if not rejected:
        raise Tagged(tags, "not-rejected", f"invalid request '{fault}' via {entry} on {targets} (storage {site.get('storage')}/{site.get('rep')}) was accepted (returned {type(ret).__name__})", dict(site, what="accepted"))
    site.pop("sig", None)
    self.unchanged(pre, post, tags, site)
    self.labels.append(f"invalid:{fault}:{site.get('entry')}/{site.get('storage')}/{site.get('rep')}")
    self.nontrivial = self.nontrivial or (site.get("storage") in ("env", "ps") or site.get("rep") in ("vector", "matrix"))
    return dict(outcome="rejected-ok", pre=pre, post=post, site=site)


def _op_caller(self, op, entry, targets):
    w = self.w
    objs = [w.obj[t] for t in targets]
    if entry == "state":
        return lambda: objs[0].apply_operation(op)
    if entry == "env":
        env = w.envs[w.env_of[targets[0]]]
        return lambda: env.apply_operation(op, *objs)
    ce = w.ces[entry]
    return lambda: ce.apply_operation(op, *objs)


Machine.do_invalid = _do_invalid
Machine._op_caller = _op_caller
