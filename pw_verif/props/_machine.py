"""shared run_case for the properties decided by the program interpreter"""
from pw_verif import ref
from pw_verif.engine import PrepFailed
from pw_verif.harness import Violation, case_hash
from pw_verif.program import Destroyed, Inapplicable, Machine, Tagged, TooBig
from pw_verif.snap import Malformed


HISTORY_NOTE = (
    " Histories: every step is judged from the library's own state before the call. When a step fails the oracle of a "
    "DIFFERENT property and the ideal result of that call is known, the program goes on with that ideal result as the "
    "reference state of the following steps (at most four times per program), so that this property's oracles are "
    "evaluated against the state the history determines; verdicts reached that way say so. Operation objects are "
    "re-used: about a quarter of the operation steps that repeat the operand kinds of an earlier step apply the very "
    "object that step built (composite ones also to the same operands in another order)."
)
SURVIVOR_NOTE = (
    " A further family ('survivors'): a composite product space of 3-5 members (equal dimensions half of the time) "
    "loses members through measurements / destructive POVMs on members stored in front of others, and the members "
    "that stay are resized, operated on, measured, sent through channels, traced out or reordered straight afterwards."
)


def worker_init():
    ref.selftest()


def run_program_case(case, prop: str, focus_kinds=None):
    """focus_kinds: step kinds whose sites make up the distinctness key"""
    labels = []
    try:
        m = Machine(case["spec"], case["layout"], case.get("contraction", True), case.get("seed", 0))
    except PrepFailed as e:
        return dict(nontrivial=False, key=None, labels=["prep-failed:" + type(e.exc).__name__])
    m.probe_remeasure = prop == "C05"
    keyparts = []
    carried = 0
    for i, st in enumerate(case["steps"]):
        try:
            res = m.step(st)
        except Destroyed as d:
            if prop not in ("C05", "C17") or st["k"] not in ("op", "kraus", "measure", "povm"):
                labels.append("skipped:" + str(d)[:30])
                continue
            # a request on a destroyed subsystem must fail and change nothing
            mode = {"op": 0, "kraus": 1, "measure": 2, "povm": 3}[st["k"]]
            entry = st.get("entry", "state")
            if entry == "env" and d.name not in m.w.env_of:
                entry = "state"
            try:
                m.step(dict(k="invalid", fault="use_destroyed", entry=entry, targets=[d.name], mode=mode, seed=i))
                labels.append("use-of-destroyed-rejected:" + st["k"])
            except Inapplicable:
                labels.append("skipped:" + str(d)[:30])
            except Tagged as t:
                if prop in t.props:
                    raise
                labels.append("abandoned-after-foreign:" + "+".join(t.props))
                break
            continue
        except Inapplicable as e:
            labels.append("skipped:" + str(e)[:30])
            continue
        except TooBig:
            labels.append("abandoned-too-big")
            break
        except Tagged as t:
            if prop in t.props:
                t.site.setdefault("step_index", min(i, 3))
                if carried and "history-reference-used" in m.labels:
                    note = (" [judged against the state the preceding calls should have produced; an earlier call had already "
                            "left a different state behind: " + "; ".join(l for l in labels if l.startswith("continued-with-history")) + "]")
                    t.detail += note
                    t.args = (t.args[0] + note,)
                raise
            if getattr(t, "from_invariant", False):
                # another property's invariant is violated but this step's own oracle passed: go on
                labels.append("continued-after-foreign-invariant:" + "+".join(t.props))
                continue
            if prop == "C13" or (prop == "C07" and t.oracle != "raised"):
                # the step oracle of another property fired first; the state it left behind is still
                # subject to this property's invariant (C13: "at every moment"; C07: "after any successful
                # public call" - so not after a call that raised)
                m.invariants_now(prop, dict(t.site, after_foreign=True))
            labels.append(f"foreign-at:{i}")
            if getattr(t, "expected", None) is not None and not t.site.get("r5_trigger") and carried < 4:
                # the call corrupted the state (another property's verdict): go on with the state it should
                # have produced as the reference, so that this property's oracles see what the user sees
                m.carry = t.expected
                carried += 1
                labels.append("continued-with-history-reference:" + "+".join(t.props))
                continue
            labels.append("abandoned-after-foreign:" + "+".join(t.props))
            break
        except Malformed as mm:
            if prop in ("C07", "C13"):
                raise Violation("malformed", mm.reason, dict(what=mm.what))
            labels.append("abandoned-malformed")
            break
        except Violation:
            raise
        except Exception:
            if not carried:
                raise
            # only reachable on a tree where another property's step oracle has already failed
            labels.append("abandoned-error-after-foreign")
            break
        if isinstance(res, dict) and "site" in res:
            s = res["site"]
            if st["k"] == "op":
                labels.append(f"op:{s.get('entry')}/{s.get('storage')}/{s.get('rep')}")
                labels.append("optype:" + st["op"]["type"])
                if i > 0:
                    labels.append("op-after-earlier-steps")
            if focus_kinds is None or st["k"] in focus_kinds:
                keyparts.append(tuple(sorted((k, str(v)) for k, v in s.items() if k not in ("cls",))))
            if res.get("outcome") == "rejected":
                break
    labels += m.labels
    labels.append("contraction:" + str(case.get("contraction", True)))
    return dict(nontrivial=m.nontrivial, key=str(keyparts) + case_hash(case["layout"]), labels=labels, machine=None)
