"""C19 - temporal-mode overlap is the normalised overlap integral."""
import math

from hypothesis import strategies as st

from pw_verif.harness import LibRaised, Violation, libcall

PROP = "C19"
LEVEL = "exploration"
BUDGET = {"quick": 1600, "thorough": 20000}
MIN_PER_SHARD = 50
RULE = (
    "Hypothesis draws two Gaussian temporal profiles: widths log-uniform in [1e-15 s, 10 s] (equal "
    "or unequal, ratio up to 50), centre offsets mu up to +-5 sigma, delay from 0 to +-40 sigma, "
    "both argument orders; the default 42.45 fs profile is included. Oracle: closed form "
    "sqrt(2 s1 s2/(s1^2+s2^2)) exp(-D^2/(2(s1^2+s2^2))) with D = delay+mu2-mu1 (exp(-d^2/(4 s^2)) for "
    "equal widths), identity = 1, symmetry ov(a,b,d)=ov(b,a,-d), range [0,1]. Non-trivial = sigma < "
    "1e-3 s (a quadrature over the whole real line does not see the pulse) or |D| > sigma; distinct = "
    "the parameter tuple rounded to 6 significant digits."
)
ASSUMPTIONS = ["absolute tolerance 1e-6 on a quantity in [0,1]", "profiles built with TemporalProfile.Gaussian.with_params(mu, sigma)"]
TOL = 1e-6


@st.composite
def _case(draw):
    if draw(st.integers(0, 19)) == 0:
        s1 = s2 = 42.45e-15
        default = True
    else:
        default = False
        s1 = 10 ** draw(st.floats(-15, 1))
        s2 = s1 if draw(st.booleans()) else s1 * 10 ** draw(st.floats(-1.7, 1.7))
    smax = max(s1, s2)
    mu1 = draw(st.sampled_from([0.0, 0.0, 1.0])) * draw(st.floats(-5, 5)) * s1
    mu2 = draw(st.sampled_from([0.0, 0.0, 1.0])) * draw(st.floats(-5, 5)) * s2
    d = draw(st.one_of(st.just(0.0), st.floats(-3, 3), st.floats(-40, 40))) * smax
    return dict(s1=s1, s2=s2, mu1=mu1, mu2=mu2, delay=d, default=default and mu1 == 0 and mu2 == 0)


def strategy(tier):
    return _case()


def fixed_cases(tier):
    s = 42.45e-15
    return [dict(s1=s, s2=s, mu1=0.0, mu2=0.0, delay=0.0, default=True),
            dict(s1=s, s2=s, mu1=0.0, mu2=0.0, delay=s, default=True),
            dict(s1=1.0, s2=1.0, mu1=0.0, mu2=0.0, delay=0.0, default=False),
            dict(s1=1.0, s2=1.0, mu1=0.0, mu2=0.0, delay=2.0, default=False)]


def _env(sigma, mu, default):
    from photon_weave.state.envelope import Envelope, TemporalProfile

    if default:
        return Envelope()
    return Envelope(temporal_profile=TemporalProfile.Gaussian.with_params(mu=mu, sigma=sigma))


def closed(s1, s2, mu1, mu2, delay):
    D = delay + mu2 - mu1
    return math.sqrt(2 * s1 * s2 / (s1 * s1 + s2 * s2)) * math.exp(-D * D / (2 * (s1 * s1 + s2 * s2)))


def run_case(case):
    s1, s2, mu1, mu2, d = case["s1"], case["s2"], case["mu1"], case["mu2"], case["delay"]
    a = _env(s1, mu1, case["default"])
    b = _env(s2, mu2, case["default"])
    scale = "fs-ns" if max(s1, s2) < 1e-6 else ("us-ms" if max(s1, s2) < 1e-3 else "s")
    site = dict(scale=scale, equal=(s1 == s2))
    try:
        ab = float(libcall(a.overlap_integral, b, d))
        ba = float(libcall(b.overlap_integral, a, -d))
        aa = float(libcall(a.overlap_integral, a, 0.0))
    except LibRaised as e:
        raise Violation("raised", str(e), dict(site, sig=e.sig()))
    want = closed(s1, s2, mu1, mu2, d)
    if not (abs(aa - 1.0) <= TOL):
        raise Violation("identity", f"overlap of a profile (sigma={s1:g}) with itself at zero delay is {aa!r}, expected 1", site)
    if not (abs(ab - want) <= TOL):
        raise Violation("closed-form", f"overlap(s1={s1:g},s2={s2:g},mu1={mu1:g},mu2={mu2:g},delay={d:g}) = {ab!r}, closed form {want!r}", site)
    if not (abs(ab - ba) <= TOL):
        raise Violation("symmetry", f"ov(a,b,d)={ab!r} but ov(b,a,-d)={ba!r}", site)
    if not (-1e-9 <= ab <= 1 + 1e-9):
        raise Violation("range", f"overlap {ab!r} outside [0,1]", site)
    D = abs(d + mu2 - mu1)
    nontrivial = max(s1, s2) < 1e-3 or D > min(s1, s2)
    key = ":".join(f"{x:.5e}" for x in (s1, s2, mu1, mu2, d))
    return dict(nontrivial=nontrivial, key=key, labels=[scale, "equal" if s1 == s2 else "unequal", "zero-delay" if d == 0 else "delayed"])
