from pw_verif import strategies as S
from pw_verif.props._machine import run_program_case, worker_init  # noqa: F401

PROP = "C07"
LEVEL = "exploration"
BUDGET = {"quick": 800, "thorough": 8000}
MIN_PER_SHARD = 10
ALL_KINDS = ["op", "op", "comp", "struct", "kraus", "kraus", "measure", "measure", "measure", "povm", "povm", "resize", "trace_out", "bigop", "set_contraction"]


def strategy(tier):
    from hypothesis import strategies as st

    return st.one_of(S.program_case(ALL_KINDS, max_steps=8 if tier == "quick" else 14, min_steps=3),
                     S.program_case(ALL_KINDS, max_steps=8 if tier == "quick" else 14, min_steps=3), S.lifecycle_case(), S.survivor_case())

RULE = (
    "Histories (two thirds): worlds/layouts/states as in C01, then 3-8 (thorough: 3-14) generated steps over all public call "
    "kinds - single and composite operations (unitary for the non-renormalising Fock types, arbitrary matrices "
    "for the renormalising custom types), channels, projective and generalised measurements with forced "
    "branches, structural calls, resizes, partial traces, toggling automatic contraction. Invariant after every "
    "successful call, on every block reachable from the user's handles: label within range; vector of shape "
    "(prod d,1) with norm 1 (1e-8); matrix of shape (prod d)^2, Hermitian, trace 1, smallest eigenvalue >= -1e-8; "
    "reported expansion level matches the data; all members of a product space report its level; a graph that "
    "cannot be read as a state at all (shape != product of dimensions, subsystem stored twice/nowhere) is a "
    "violation too. Non-trivial = the history contains a non-label block and at least one of {renormalising "
    "non-unitary operation, channel, measurement, resize}; distinct = hash of (layout, step kinds and sites)."
)
from pw_verif.props._machine import HISTORY_NOTE, SURVIVOR_NOTE  # noqa: E402,F401

RULE += SURVIVOR_NOTE + HISTORY_NOTE
ASSUMPTIONS = ["reference self-tests passed", "non-unitary operators are only issued through the renormalising operation types (as the property's quantifier says)",
               "a program is abandoned (counted) after a step that violates a different property, since the state may be corrupt from then on"]


def run_case(case):
    r = run_program_case(case, PROP)
    kinds = {s["k"] for s in case["steps"]}
    r["nontrivial"] = bool(case["layout"]) and bool(kinds & {"kraus", "measure", "povm", "resize"} or any(s["k"] == "op" and s["op"].get("unitary") is False for s in case["steps"]))
    return r
