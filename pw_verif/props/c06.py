"""C06 - Kraus channels are applied as sum K rho K^dagger on the named subsystems."""
from hypothesis import strategies as st

from pw_verif import strategies as S
from pw_verif.props._machine import run_program_case, worker_init  # noqa: F401

PROP = "C06"
LEVEL = "exploration"
BUDGET = {"quick": 640, "thorough": 8000}
MIN_PER_SHARD = 10
RULE = (
    "Worlds/layouts/states as in C01. Programs of 1-3 steps, mostly channels: 1-4 Kraus operators from a Haar "
    "isometry (sum K+K = I to 1e-15; single unitaries included) on 1-2 target subsystems in generated order "
    "through subsystem / envelope / composite entry, interleaved with operations. Oracle: joint density matrix "
    "after the call vs sum_i (K_i x I) rho (K_i x I)^+ of the one before (<= 1e-8), unit trace, and the "
    "representation rule (a block reported as vector/label after the channel must be pure to 1e-5). "
    "Non-trivial = a channel with >= 2 operators was applied; distinct = (entry, storage, representations, "
    "number of targets/operators, block spread, layout hash)."
)
from pw_verif.props._machine import HISTORY_NOTE, SURVIVOR_NOTE  # noqa: E402,F401

RULE += SURVIVOR_NOTE + HISTORY_NOTE
ASSUMPTIONS = ["reference self-tests passed", "operators sized from the targets' public dimensions, tensor factors in operand order",
               "targets' joint dimension <= 36"]


def strategy(tier):
    from hypothesis import strategies as st

    hist = ["kraus", "kraus", "kraus", "op", "measure", "struct", "comp", "resize"]
    return st.one_of(S.program_case(["kraus", "kraus", "kraus", "op"], max_steps=3), S.program_case(hist, max_steps=5, min_steps=2),
                     S.lifecycle_case(tail_kinds=("kraus", "kraus", "op"), max_tail=3),
                     S.survivor_case(touches=("kraus", "kraus", "resize", "fockop")))


def run_case(case):
    return run_program_case(case, PROP, focus_kinds=("kraus",))
