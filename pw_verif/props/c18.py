"""C18 - distinct subsystems are never confused, even when they hold equal values."""
import copy

from hypothesis import strategies as st

from pw_verif import program
from pw_verif import strategies as S
from pw_verif.engine import PrepFailed
from pw_verif.harness import Violation, case_hash
from pw_verif.program import Inapplicable, Machine, Tagged, TooBig
from pw_verif.props._machine import worker_init  # noqa: F401
from pw_verif.snap import Malformed

PROP = "C18"
LEVEL = "exploration"
BUDGET = {"quick": 960, "thorough": 9000}
MIN_PER_SHARD = 10
RULE = (
    "Metamorphic twins. Colliding world: 2-3 envelopes whose Fock subsystems have the same cut-off and hold the "
    "same value - the same label, or bit-identical generated vectors / density matrices - (polarizations and "
    "custom states likewise), registered in one composite envelope, uncombined or partly combined; program of "
    "2-6 steps over measurements (all flag combinations, forced branches), combines, reorders, partial traces, "
    "operations, channels, POVMs. Twin world: the same program with the coinciding values made distinct "
    "(different labels / independently generated arrays). Both twins run under the full step oracles (outcome "
    "dictionary keys by object identity, which subsystems are destroyed, block partition, joint state vs "
    "reference). Oracle: a step that fails its oracle in the colliding world while the twin passes the same step "
    "is a confusion of equal-valued subsystems; where both pass, the addressing signature (live set, block "
    "partition by name, outcome-dictionary keys) of every step must be identical. Non-trivial = two equal-valued "
    "Fock subsystems were both registered in the composite envelope and at least one was uncombined when a "
    "measurement / combine / trace_out ran; distinct = hash of (layout, steps)."
)
ASSUMPTIONS = ["reference self-tests passed", "twins follow the same branch: every non-deterministic draw is forced by a generated script (first possible outcome when the script ends)",
               "a failure present in both twins belongs to another property and is only counted"]


@st.composite
def _case(draw):
    n_env = draw(st.integers(2, 3))
    fd = draw(st.sampled_from([1, 2, 2, 3, 3]))
    lab = draw(st.integers(0, fd - 1))
    pol = draw(st.sampled_from(["H", "V", "R"]))
    envs = [dict(fdim=fd, fock=lab, pol=pol) for _ in range(n_env)]
    customs = [dict(dim=2, label=0) for _ in range(draw(st.integers(0, 2)))]
    units = [f"e{i}" for i in range(n_env)] + [f"c{i}" for i in range(len(customs))]
    spec = dict(envs=envs, customs=customs, ces=[units])
    # identical own states at a generated level; optionally some envelopes combined / one product space
    lvl = draw(st.sampled_from([0, 0, 1, 2]))
    sdesc = dict(cls=draw(st.sampled_from(["basis", "product", "pure", "mixed"])), seed=draw(S.seeds))
    plvl = draw(st.sampled_from([0, 1, 2]))
    pdesc = dict(cls=draw(st.sampled_from(["basis", "pure", "mixed"])), seed=draw(S.seeds))
    layout = []
    combined = draw(st.lists(st.booleans(), min_size=n_env, max_size=n_env))
    if all(combined):
        combined[draw(st.integers(0, n_env - 1))] = False
    for i in range(n_env):
        if combined[i]:
            layout.append(dict(members=[f"e{i}.f", f"e{i}.p"], via="env", level=max(1, lvl), state=dict(sdesc)))
        else:
            if lvl > 0:
                layout.append(dict(members=[f"e{i}.f"], via="own", level=lvl, state=dict(sdesc)))
            if plvl > 0:
                layout.append(dict(members=[f"e{i}.p"], via="own", level=plvl, state=dict(pdesc)))
    info = S.Info(spec, layout)
    focks = [f"e{i}.f" for i in range(n_env)]
    pols = [f"e{i}.p" for i in range(n_env)]

    def pair_step():
        # actions that name two (or three) equal-valued subsystems of one kind in one call
        grp = draw(st.sampled_from([focks, focks, pols] + ([[f"c{i}" for i in range(len(customs))]] if len(customs) >= 2 else [])))
        ts = list(draw(st.permutations(grp))[: draw(st.integers(2, min(3, len(grp))))])
        what = draw(st.sampled_from(["kraus", "povm", "measure", "measure", "ce_combine", "ce_reorder", "trace_out", "comp", "resize"]))
        if what == "kraus":
            return dict(k="kraus", entry="ce0", targets=ts[:2], kseed=draw(S.seeds), nops=draw(st.integers(1, 3)), unitary=False)
        if what == "povm":
            return dict(k="povm", entry="ce0", targets=ts[:2], pseed=draw(S.seeds), nops=2, projective=draw(st.booleans()), destructive=draw(st.booleans()), partial=False,
                        script=draw(st.lists(st.integers(0, 5), max_size=3)))
        if what == "measure":
            return dict(k="measure", entry="ce0", targets=ts, sep=draw(st.booleans()), destructive=draw(st.booleans()), script=draw(st.lists(st.integers(0, 5), max_size=4)))
        if what in ("ce_combine", "ce_reorder"):
            return dict(k="struct", call=what, ce="ce0", members=ts)
        if what == "trace_out":
            return dict(k="trace_out", entry="ce0", targets=ts[:2])
        if what == "comp":
            if grp is focks:
                return dict(k="op", entry="ce0", targets=ts[:2], op=dict(type="comp:BS", params=dict(eta=draw(S.angle))))
            if grp is pols:
                return dict(k="op", entry="ce0", targets=ts[:2], op=dict(type="comp:" + draw(st.sampled_from(["CX", "CZ", "SWAP"]))))
            return dict(k="op", entry="ce0", targets=ts[:2], op=dict(type="comp:Expression", factors=[dict(kind="custom", useed=draw(S.seeds)), dict(kind="custom", useed=draw(S.seeds))]))
        t = draw(st.sampled_from(focks))
        return dict(k="resize", entry="ce0", target=t, n=draw(st.integers(1, 5)))

    steps = []
    for _ in range(draw(st.integers(2, 6))):
        if draw(st.booleans()):
            steps.append(pair_step())
        else:
            steps.append(draw(S.step(info, ["measure", "measure", "struct", "trace_out", "op", "kraus", "povm", "comp"])))
    return dict(spec=spec, layout=layout, contraction=draw(st.booleans()), steps=steps)


def strategy(tier):
    return _case()


def _distinct(case):
    t = copy.deepcopy(case)
    fd = t["spec"]["envs"][0]["fdim"]
    for i, e in enumerate(t["spec"]["envs"]):
        e["fock"] = (e["fock"] + i) % fd
        if i % 2 == 1:
            e["pol"] = {"H": "V", "V": "H", "R": "L"}[e["pol"]]
    if fd == 1:
        for i, e in enumerate(t["spec"]["envs"]):
            e["fdim"] = i + 1
            e["fock"] = i
    if fd == 2 and len(t["spec"]["envs"]) == 3:
        t["spec"]["envs"][2]["fdim"] = 3
        t["spec"]["envs"][2]["fock"] = 2
    for j, b in enumerate(t["layout"]):
        b["state"]["seed"] = b["state"]["seed"] + 1000 * (j + 1)
        if b["state"]["cls"] == "basis":
            b["state"]["cls"] = "product"
    return t


def _run(case):
    """returns (signatures per step, failure or None)"""
    m = Machine(case["spec"], case["layout"], case["contraction"], 0)
    sigs = []
    for i, st_ in enumerate(case["steps"]):
        try:
            res = m.step(st_)
        except Inapplicable as e:
            sigs.append(("skip", str(e)[:20]))
            continue
        except TooBig:
            return sigs, ("too-big", i, None)
        except Tagged as t:
            return sigs, ("tagged", i, t)
        except Malformed as mm:
            return sigs, ("malformed", i, mm)
        post = res.get("post") if isinstance(res, dict) else None
        sig = None
        if post is not None:
            sig = (tuple(post.names), tuple(post.partition()), tuple(sorted((res.get("outcomes") or {}).keys())))
        sigs.append(("ok", sig))
    return sigs, None


def run_case(case):
    program._ScriptForcer.TOTAL = True
    try:
        try:
            sig_c, fail_c = _run(case)
            twin = _distinct(case)
            sig_t, fail_t = _run(twin)
        except PrepFailed:
            return dict(nontrivial=False, key=None, labels=["prep-failed"])
    finally:
        program._ScriptForcer.TOTAL = False
    labels = []
    site = dict(action="collision")
    if fail_c is not None and fail_c[0] == "tagged":
        t = fail_c[2]
        i = fail_c[1]
        twin_ok_there = (fail_t is None or fail_t[1] > i) and len(sig_t) > i and sig_t[i][0] == "ok"
        if twin_ok_there and not t.site.get("r5_trigger"):
            raise Violation("collision-dependent-failure", f"step {i} ({case['steps'][i]['k']}) fails only when the subsystems hold equal values: {t}",
                            dict(site, step_kind=case["steps"][i]["k"], oracle2=t.oracle, what=t.site.get("what", "")))
        labels.append("both-twins-fail-or-known:" + "+".join(t.props))
    n = min(len(sig_c), len(sig_t))
    for i in range(n):
        a, b = sig_c[i], sig_t[i]
        if a[0] != b[0]:
            # the step was applicable in one twin only (e.g. the joint dimension after a beam splitter on |2,2> is
            # beyond what a generated POVM is built for, after one on |2,0> it is not): from here on the twins
            # execute different programs and their partitions need not agree
            labels.append("twin-applicability-differs")
            n = i
            break
        if a[0] == "ok" and b[0] == "ok" and a[1] is not None and b[1] is not None and a[1] != b[1]:
            # dimensions differ between twins, names do not: signatures are over names only
            raise Violation("addressing-signature", f"step {i} ({case['steps'][i]['k']}): live set / partition / reported subsystems differ between equal-valued and distinct-valued twins: {a[1]} vs {b[1]}",
                            dict(site, step_kind=case["steps"][i]["k"], what="signature"))
    ks = [s["k"] for s in case["steps"]]
    nontrivial = any(k in ("measure", "trace_out", "povm") or (k == "struct") for k in ks) and any(b["via"] != "env" for b in case["layout"]) or not case["layout"]
    labels.append(f"steps-compared:{min(n, 6)}")
    return dict(nontrivial=bool(nontrivial), key=case_hash([case["layout"], case["steps"], case["spec"]]), labels=labels)
