from pw_verif import strategies as S
from pw_verif.props._machine import run_program_case, worker_init  # noqa: F401

PROP = "C20"
LEVEL = "exploration"
BUDGET = {"quick": 640, "thorough": 6000}
MIN_PER_SHARD = 10
ALL_KINDS = ["op", "op", "comp", "comp", "struct", "struct", "kraus", "measure", "measure", "povm", "resize", "trace_out", "bigop", "set_contraction"]


def strategy(tier):
    from hypothesis import strategies as st

    return st.one_of(S.program_case(ALL_KINDS, max_steps=8 if tier == "quick" else 14, min_steps=3),
                     S.program_case(ALL_KINDS, max_steps=8 if tier == "quick" else 14, min_steps=3), S.lifecycle_case(), S.survivor_case())

RULE = (
    "Histories as in C07 on worlds partitioned into several blocks (own states, combined envelopes, composite "
    "product spaces). Invariant on the partition, checked after every successful call from the snapshot before "
    "and after: blocks that contain none of the addressed subsystems (for measurements: addressed plus envelope "
    "partners) must be unchanged - same holder, same members in the same order, same reported level, same "
    "representation, same dtype/shape and bit-identical array; subsystems of such blocks may not be pulled into "
    "a block with addressed ones (over-merge); an action addressing a single subsystem must not enlarge any "
    "product space; measured subsystems leave their product space. Non-trivial = at least one bystander block of "
    ">= 2 members existed when a multi-subsystem action or a measurement ran; distinct = hash of (layout, step "
    "kinds and sites)."
)
from pw_verif.props._machine import HISTORY_NOTE, SURVIVOR_NOTE  # noqa: E402,F401

RULE += SURVIVOR_NOTE + HISTORY_NOTE
ASSUMPTIONS = ["reference self-tests passed", "reordering or re-leveling inside an addressed block is allowed by the statement and not flagged",
               "merging the blocks of addressed subsystems is allowed, not required"]


def run_case(case):
    r = run_program_case(case, PROP)
    nb = sum(1 for b in case["layout"] if len(b["members"]) >= 2)
    r["nontrivial"] = nb >= 1 and any(s["k"] in ("measure", "povm", "kraus", "trace_out") or (s["k"] == "op" and len(s["targets"]) > 1) for s in case["steps"])
    return r
