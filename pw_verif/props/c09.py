"""C09 - POVM measurement: correct probabilities and post-state at every entry point."""
from pw_verif import strategies as S
from pw_verif.props._machine import run_program_case, worker_init  # noqa: F401

PROP = "C09"
LEVEL = "exploration"
BUDGET = {"quick": 960, "thorough": 8000}
MIN_PER_SHARD = 10
RULE = (
    "Worlds/layouts/states as in C01. Programs of 1-3 steps, mostly generalised measurements: complete operator "
    "sets of 2-4 elements (non-projective: blocks of a Haar isometry; projective: a partition of a Haar-rotated "
    "basis; one in five steps a weak 'unsharp' number-basis measurement with strength 1e-8..1e-2) on 1-3 target subsystems (possibly spread over several product spaces) in generated order, through subsystem.measure_POVM (incl. partial), "
    "envelope.measure_POVM and composite.measure_POVM, destructive or not, with the sampler intercepted and a "
    "generated branch forced. Oracle: the whole probability vector handed to the sampler equals Tr(M_i rho_red "
    "M_i^+) (<= 1e-8); the returned index is the drawn one; non-destructive mode destroys nothing, destructive "
    "mode destroys the addressed Fock/polarization subsystems (never a custom state, never a bystander); the joint "
    "state of the live subsystems equals (MxI) rho (MxI)^+/p, with reported partner outcomes projected and "
    "destroyed subsystems either traced out or conditioned on one unreported projective outcome (both are "
    "unravellings of the same instrument). Non-trivial = a non-projective set was measured; distinct = (entry, "
    "storages, representations, #targets, flags, layout hash, script)."
)
from pw_verif.props._machine import HISTORY_NOTE, SURVIVOR_NOTE  # noqa: E402,F401

RULE += SURVIVOR_NOTE + HISTORY_NOTE
ASSUMPTIONS = ["reference self-tests passed", "operators sized from the targets' public dimensions (joint dimension <= 24)",
               "what happens to envelope partners is not fixed by the statement: only 'non-destructive destroys nothing' and 'bystanders are never destroyed' are enforced"]


def strategy(tier):
    from hypothesis import strategies as st

    hist = ["povm", "povm", "povm", "op", "measure", "struct", "comp", "kraus"]
    return st.one_of(S.program_case(["povm", "povm", "povm", "op"], max_steps=3), S.program_case(hist, max_steps=5, min_steps=2),
                     S.lifecycle_case(tail_kinds=("povm", "povm", "op"), max_tail=3),
                     S.survivor_case(touches=("povm", "povm", "resize", "fockop")))


def run_case(case):
    r = run_program_case(case, PROP, focus_kinds=("povm",))
    r["key"] = (r["key"] or "") + str([s.get("script") for s in case["steps"] if s["k"] == "povm"])
    return r
