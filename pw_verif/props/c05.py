"""C05 - measurement collapses the state and retires measured subsystems correctly."""
from pw_verif import strategies as S
from pw_verif.props._machine import run_program_case, worker_init  # noqa: F401

PROP = "C05"
LEVEL = "exploration"
BUDGET = {"quick": 960, "thorough": 8000}
MIN_PER_SHARD = 10
RULE = (
    "Worlds/layouts/states and forced-branch measurements as in C04, followed by 0-3 further generated steps "
    "(operations, channels, measurements, structural calls) on whatever survives. Oracle per measurement: (i) the "
    "outcome dictionary holds, by object identity, exactly the subsystems the call is specified to measure (given "
    "ones plus envelope partners unless separate_measurement), each once; (ii) the joint state of all live "
    "subsystems equals the pre-state projected on the outcomes and renormalised (<= 1e-8), with non-destructively "
    "measured subsystems (and custom states) left alone in the basis state of their outcome; (iii) destructively "
    "measured Fock/polarization subsystems are flagged measured, hold no state, sit in no block, nothing else is "
    "destroyed; (iv) every later step on survivors must satisfy its own oracle, and requests on destroyed "
    "subsystems must raise. Non-trivial = a measured subsystem had a non-deterministic marginal (projection is "
    "not the identity); distinct as in C04."
)
from pw_verif.props._machine import HISTORY_NOTE, SURVIVOR_NOTE  # noqa: E402,F401

RULE += SURVIVOR_NOTE + HISTORY_NOTE
ASSUMPTIONS = ["reference self-tests passed", "forcing an outcome never changes which code runs, only the index returned by the sampler",
               "label states that return without drawing are checked as point masses (path probability 1)"]


def strategy(tier):
    from hypothesis import strategies as st

    return st.one_of(S.program_case(["measure", "measure", "op", "kraus", "struct", "comp"], max_steps=4),
                     S.program_case(["measure", "measure", "op", "kraus", "struct", "comp"], max_steps=4), S.lifecycle_case(max_tail=2),
                     S.survivor_case(touches=("resize", "fockop", "measure", "op", "kraus"), max_touch=2, finals=("measure",)))


def run_case(case):
    r = run_program_case(case, PROP, focus_kinds=("measure",))
    r["key"] = (r["key"] or "") + str([s.get("script") for s in case["steps"] if s["k"] == "measure"])
    return r
