"""C04 - measurement outcomes follow the Born rule."""
from pw_verif import strategies as S
from pw_verif.props._machine import run_program_case, worker_init  # noqa: F401

PROP = "C04"
LEVEL = "exploration"
BUDGET = {"quick": 640, "thorough": 8000}
MIN_PER_SHARD = 10
RULE = (
    "Worlds/layouts/states as in C01 (incl. amplitude-cancelling and complex entangled states). Programs of 1-3 "
    "steps, mostly projective measurements of 1-3 subsystems through subsystem / envelope / composite entry with "
    "generated separate_measurement and destructive flags. The sampler (jax.random.choice) is intercepted: it "
    "records every probability vector and a generated script forces, draw by draw, one of the outcomes of "
    "non-zero probability, so each case follows a generated branch rather than the modal one. Oracle: the product "
    "of the probabilities of the forced outcomes along the path must equal the Born probability Tr(P_outcomes rho) "
    "of the reported outcome dictionary computed by the reference from the pre-state (<= 1e-8); no probability "
    "vector may contain a negative entry; no outcome of Born probability <= 1e-10 may be reported. Non-trivial = "
    "some measured subsystem's marginal has no outcome above 1-1e-3; distinct = (entry, storages, representations, "
    "flags, number measured, layout hash, script)."
)
from pw_verif.props._machine import HISTORY_NOTE, SURVIVOR_NOTE  # noqa: E402,F401

RULE += SURVIVOR_NOTE + HISTORY_NOTE
ASSUMPTIONS = ["reference self-tests passed", "forcing an outcome never changes which code runs, only the index returned by the sampler",
               "label states that return without drawing are checked as point masses (path probability 1)"]


def strategy(tier):
    from hypothesis import strategies as st

    hist = ["measure", "measure", "measure", "op", "kraus", "struct", "comp", "resize"]
    return st.one_of(S.program_case(["measure", "measure", "measure", "op"], max_steps=3), S.program_case(hist, max_steps=5, min_steps=2),
                     S.lifecycle_case(tail_kinds=("measure", "measure", "resize", "op"), max_tail=3),
                     S.survivor_case(touches=("resize", "fockop", "measure", "op"), max_touch=2, finals=("measure",)),
                     S.survivor_case(touches=("resize", "fockop"), max_touch=2, finals=("measure",)))


def run_case(case):
    r = run_program_case(case, PROP, focus_kinds=("measure",))
    r["key"] = (r["key"] or "") + str([s.get("script") for s in case["steps"] if s["k"] == "measure"])
    return r
