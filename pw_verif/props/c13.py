from pw_verif import strategies as S
from pw_verif.props._machine import run_program_case, worker_init  # noqa: F401

PROP = "C13"
LEVEL = "exploration"
BUDGET = {"quick": 480, "thorough": 6000}
MIN_PER_SHARD = 10
ALL_KINDS = ["op", "comp", "comp", "struct", "struct", "newce", "newce", "newce", "kraus", "measure", "measure", "povm", "resize", "trace_out"]


def strategy(tier):
    return S.program_case(ALL_KINDS, max_steps=8 if tier == "quick" else 14, min_steps=3)

RULE = (
    "Histories as in C07 with composite-envelope constructions and merges among the steps (new handles over "
    "existing members, handles that already share a container, chains). Invariant after every successful call "
    "(bookkeeping predicate over registries, containers, back pointers and indices): every live subsystem is "
    "stored in exactly one place and its public index names it (None / position in its envelope / (product-space "
    "position, tensor position)); subsystems in a product space point back to a composite handle that resolves to "
    "that container; member envelopes' composite id resolves to their container; no product space listed twice "
    "or left empty; no envelope or subsystem listed twice; destroyed subsystems hold no state and no index. "
    "Non-trivial = the history contains a merge or a step that removes subsystems from a product space, after "
    "which further steps ran; distinct = hash of (layout, step kinds and sites)."
)
ASSUMPTIONS = ["reference self-tests passed", "class-level registries are cleared at the start of every case (emulating a fresh process)",
               "independence of unrelated composite envelopes is covered by the bystander rule of C20 (blocks without addressed members must be bit-identical)"]


def run_case(case):
    r = run_program_case(case, PROP)
    ks = [s for s in case["steps"]]
    r["nontrivial"] = any(s["k"] in ("measure", "povm") or (s["k"] == "struct" and s["call"] in ("new_ce", "ce_combine", "ce_reorder")) for s in ks[:-1])
    return r
