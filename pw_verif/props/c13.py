from pw_verif import strategies as S
from pw_verif.props._machine import run_program_case, worker_init  # noqa: F401

PROP = "C13"
LEVEL = "exploration"
BUDGET = {"quick": 960, "thorough": 9000}
MIN_PER_SHARD = 10
ALL_KINDS = ["op", "comp", "comp", "struct", "struct", "newce", "newce", "newce", "kraus", "measure", "measure", "povm", "resize", "trace_out"]


from hypothesis import strategies as st


@st.composite
def _merge_storm(draw):
    """many small composite envelopes and a program that mostly merges handles (chains, re-wraps, handles
    reached only through a member envelope), with a few combines / measurements in between"""
    n_env = draw(st.integers(2, 4))
    envs = [dict(fdim=2, fock=draw(st.integers(0, 1)), pol=draw(st.sampled_from(["H", "V"]))) for _ in range(n_env)]
    customs = [dict(dim=2, label=0) for _ in range(draw(st.integers(0, 2)))]
    units = [f"e{i}" for i in range(n_env)] + [f"c{i}" for i in range(len(customs))]
    k = draw(st.integers(2, min(4, len(units))))
    shuffled = list(draw(st.permutations(units)))
    cuts = sorted(draw(st.lists(st.integers(1, len(units) - 1), min_size=k - 1, max_size=k - 1, unique=True))) if len(units) > 1 else []
    ces, prev = [], 0
    for c in cuts + [len(units)]:
        if shuffled[prev:c]:
            ces.append(sorted(shuffled[prev:c]))
        prev = c
    spec = dict(envs=envs, customs=customs, ces=ces)
    layout = []
    info = S.Info(spec, layout)
    steps = []
    n_handles = len(ces)
    for _ in range(draw(st.integers(4, 10))):
        r = draw(st.integers(0, 9))
        if r <= 5:
            pool = [f"ce{j}" for j in range(n_handles)] + units
            k_ = draw(st.sampled_from([1, 1, 2, 3, 3, 3]))
            m = list(dict.fromkeys(draw(st.lists(st.sampled_from(pool), min_size=k_, max_size=k_))))
            steps.append(dict(k="struct", call="new_ce", members=m))
            n_handles += 1
        elif r <= 7:
            cname = f"ce{draw(st.integers(0, n_handles - 1))}"
            subs = list(dict.fromkeys(draw(st.lists(st.sampled_from(info.subs), min_size=2, max_size=3))))
            steps.append(dict(k="struct", call=draw(st.sampled_from(["ce_combine", "ce_reorder"])), ce=cname, members=subs))
        else:
            cname = f"ce{draw(st.integers(0, n_handles - 1))}"
            t = draw(st.sampled_from(info.subs))
            steps.append(dict(k="measure", entry=cname, targets=[t], sep=draw(st.booleans()), destructive=draw(st.booleans()), script=[draw(st.integers(0, 3))]))
    return dict(spec=spec, layout=layout, contraction=draw(st.booleans()), steps=steps, family="merge-storm")


def strategy(tier):
    return st.one_of(S.program_case(ALL_KINDS, max_steps=8 if tier == "quick" else 14, min_steps=3),
                     S.lifecycle_case(), _merge_storm(), S.survivor_case())

RULE = (
    "Two families. (1) 'Merge storms': 2-4 small composite envelopes over single units and 3-9 steps that mostly construct "
    "further handles from generated mixtures of existing handles, envelopes and custom states (re-wraps, chains, "
    "handles reached only through a member envelope, three-way merges), with combines/reorders/measurements through "
    "generated handles in between. (2) Histories as in C07 with composite-envelope constructions and merges among the steps (new handles over "
    "existing members, handles that already share a container, chains). Invariant after every successful call "
    "(bookkeeping predicate over registries, containers, back pointers and indices): every live subsystem is "
    "stored in exactly one place and its public index names it (None / position in its envelope / (product-space "
    "position, tensor position)); subsystems in a product space point back to a composite handle that resolves to "
    "that container; member envelopes' composite id resolves to their container; no product space listed twice "
    "or left empty; no envelope or subsystem listed twice; destroyed subsystems hold no state and no index; all handles that were ever "
    "merged with each other resolve to one and the same container. "
    "Non-trivial = the history contains a merge or a step that removes subsystems from a product space, after "
    "which further steps ran; distinct = hash of (layout, step kinds and sites)."
)
from pw_verif.props._machine import HISTORY_NOTE, SURVIVOR_NOTE  # noqa: E402,F401

RULE += SURVIVOR_NOTE + HISTORY_NOTE
ASSUMPTIONS = ["reference self-tests passed", "class-level registries are cleared at the start of every case (emulating a fresh process)",
               "independence of unrelated composite envelopes is covered by the bystander rule of C20 (blocks without addressed members must be bit-identical)"]


def run_case(case):
    r = run_program_case(case, PROP)
    ks = [s for s in case["steps"]]
    r["nontrivial"] = any(s["k"] in ("measure", "povm") or (s["k"] == "struct" and s["call"] in ("new_ce", "ce_combine", "ce_reorder")) for s in ks[:-1])
    return r
