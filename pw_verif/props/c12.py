"""C12 - the built-in operator library equals its mathematical definitions."""
import math

import numpy as np
import scipy.linalg as sla
from hypothesis import strategies as st

from pw_verif.harness import LibRaised, Violation, libcall

PROP = "C12"
LEVEL = "exploration"
BUDGET = {"quick": 2400, "thorough": 40000}
RULE = (
    "Hypothesis draws (operator kind, parameters, cutoff): polarization gates with angles in "
    "[-50,50], U3 triples, Fock ladder/number/phase operators at cutoffs 1..24, displacement and "
    "squeezing with complex parameters |.|<=1.2 at cutoffs 1..40, beam splitters with eta in "
    "[-4pi,4pi] at cutoffs 1..5, and every type through Operation(...).operator after "
    "compute_dimensions (with a second operation of the same type and other parameters constructed in between). Oracle: independent numpy/scipy definitions, algebraic identities and "
    "closed forms. A case is non-trivial when a continuous parameter is not within 1e-3 of a "
    "multiple of pi/2 (angles) or has both real and imaginary part > 1e-3 (complex); distinct = "
    "(kind, cutoff, parameters rounded to 1e-6)."
)
ASSUMPTIONS = [
    "textbook conventions: RX/RY/RZ = exp(-i theta sigma/2); U3(phi,theta,omega)=[[c,-e^{i omega}s],[e^{i phi}s,e^{i(phi+omega)}c]]",
    "phase shift = diag(exp(+i n theta)) as documented in _math/ops.py",
    "truncated displacement/squeezing = expm of the truncated generator (exact at every cutoff, 1e-8); closed forms on the vacuum are compared only when cutoff is large enough that the neglected tail is < 1e-10",
    "tolerance 1e-9 for closed-form gates; 1e-7 for everything that goes through a matrix exponential (jax expm is accurate to ~2e-9 at |eta|=10; a definitional error is O(1))",
]
TOL = 1e-9

_I = np.eye(2)
_X = np.array([[0, 1], [1, 0]], complex)
_Y = np.array([[0, -1j], [1j, 0]], complex)
_Z = np.array([[1, 0], [0, -1]], complex)


def _a(n):
    m = np.zeros((n, n), complex)
    for k in range(1, n):
        m[k - 1, k] = math.sqrt(k)
    return m


def _close(a, b, tol=TOL):
    a = np.asarray(a)
    b = np.asarray(b)
    return a.shape == b.shape and np.max(np.abs(a - b), initial=0.0) <= tol


def _unitary(u, tol=1e-9):
    u = np.asarray(u)
    return _close(u.conj().T @ u, np.eye(u.shape[0]), tol)


angle = st.floats(-50, 50, allow_nan=False, allow_infinity=False)
cplx = st.one_of(
    st.builds(lambda r, ph: [r * math.cos(ph), r * math.sin(ph)], st.floats(0, 1.2), st.floats(-math.pi, math.pi)),
    st.builds(lambda r, ph: [r * math.cos(ph), r * math.sin(ph)], st.floats(0, 1.2), st.floats(-math.pi, math.pi)),
    # the axes exactly (sign functions, branch cuts): real positive / negative, purely imaginary
    st.builds(lambda x: [x, 0.0], st.floats(-1.2, 1.2)),
    st.builds(lambda y: [0.0, y], st.floats(-1.2, 1.2)),
)


def strategy(tier):
    fixed = st.sampled_from(["I", "X", "Y", "Z", "H", "S", "T", "SX"])
    return st.one_of(
        st.builds(lambda g, via: dict(kind="fixed", gate=g, via=via), fixed, st.sampled_from(["ops", "operation"])),
        st.builds(lambda g, t1, t2, via: dict(kind="rot", gate=g, t1=t1, t2=t2, via=via),
                  st.sampled_from(["RX", "RY", "RZ"]), angle, angle, st.sampled_from(["ops", "operation"])),
        st.builds(lambda p, t, o, via: dict(kind="u3", phi=p, theta=t, omega=o, via=via), angle, angle, angle,
                  st.sampled_from(["ops", "operation"])),
        st.builds(lambda g: dict(kind="multi", gate=g), st.sampled_from(["CX", "CZ", "SWAP", "CSWAP"])),
        st.builds(lambda n: dict(kind="ladder", cutoff=n), st.integers(1, 24)),
        st.builds(lambda n, t1, t2: dict(kind="phase", cutoff=n, t1=t1, t2=t2), st.integers(1, 24), angle, angle),
        st.builds(lambda n, al: dict(kind="displace", cutoff=n, alpha=al), st.integers(1, 40), cplx),
        st.builds(lambda n, z: dict(kind="squeeze", cutoff=n, zeta=z), st.integers(1, 40), cplx),
        st.builds(lambda n, e: dict(kind="bs", cutoff=n, eta=e), st.integers(1, 5),
                  st.floats(-4 * math.pi, 4 * math.pi)),
        st.builds(lambda typ, nq, d, par, ang: dict(kind="fock_operation", type=typ, nq=nq, extra=d, param=par, angle=ang),
                  st.sampled_from(["Creation", "Annihilation", "PhaseShift", "Identity", "Displace", "Squeeze"]),
                  st.integers(0, 4), st.integers(1, 3), cplx, angle),
    )


def fixed_cases(tier):
    cs = []
    for g in ["I", "X", "Y", "Z", "H", "S", "T", "SX"]:
        for via in ["ops", "operation"]:
            cs.append(dict(kind="fixed", gate=g, via=via))
    for g in ["CX", "CZ", "SWAP", "CSWAP"]:
        cs.append(dict(kind="multi", gate=g))
    for n in range(1, 25):
        cs.append(dict(kind="ladder", cutoff=n))
    return cs


def _nontrivial_angle(*ts):
    return all(abs((t / (math.pi / 2)) - round(t / (math.pi / 2))) * (math.pi / 2) > 1e-3 for t in ts)


def _nontrivial_c(z):
    return abs(z[0]) > 1e-3 and abs(z[1]) > 1e-3


def _pol_matrix(gate, via, **kw):
    from photon_weave._math import ops
    from photon_weave.operation import Operation, PolarizationOperationType

    if via == "ops":
        fn = {"I": ops.identity_operator, "X": ops.x_operator, "Y": ops.y_operator, "Z": ops.z_operator,
              "H": ops.hadamard_operator, "S": ops.s_operator, "T": ops.t_operator, "SX": ops.sx_operator,
              "RX": ops.rx_operator, "RY": ops.ry_operator, "RZ": ops.rz_operator, "U3": ops.u3_operator}[gate]
        return np.asarray(libcall(fn, **kw))
    op = libcall(Operation, getattr(PolarizationOperationType, gate), **kw)
    if kw:
        libcall(Operation, getattr(PolarizationOperationType, gate), **{k_: v_ * 0.5 + 0.3 for k_, v_ in kw.items()})
    libcall(op.compute_dimensions, 0, np.array([0]))
    return np.asarray(libcall(lambda: op.operator))


def run_case(case):
    try:
        return _run(case)
    except LibRaised as e:
        raise Violation("raised", f"{case['kind']}: {e}", dict(kind=case["kind"], sig=e.sig()))


def _run(case):
    from photon_weave._math import ops
    from photon_weave.operation import CompositeOperationType, FockOperationType, Operation

    k = case["kind"]
    site = dict(kind=k)
    info = dict(nontrivial=False, labels=[k], key=None)

    def bad(oracle, detail, **extra):
        s = dict(site)
        s.update(extra)
        raise Violation(oracle, detail, s)

    if k == "fixed":
        g = case["gate"]
        site["gate"] = g
        ref = {"I": _I, "X": _X, "Y": _Y, "Z": _Z, "H": (_X + _Z) / math.sqrt(2), "S": np.diag([1, 1j]),
               "T": np.diag([1, np.exp(1j * math.pi / 4)]), "SX": sla.sqrtm(_X)}[g]
        if g == "SX":
            ref = 0.5 * np.array([[1 + 1j, 1 - 1j], [1 - 1j, 1 + 1j]])
            if not _close(ref @ ref, _X):
                raise RuntimeError("reference SX wrong")
        m = _pol_matrix(g, case["via"])
        if not _close(m, ref):
            bad("definition", f"{g} via {case['via']} = {m.tolist()} differs from textbook")
        if not _unitary(m):
            bad("unitary", f"{g} not unitary")
        info.update(nontrivial=False, key=f"fixed:{g}:{case['via']}")
    elif k == "rot":
        g, t1, t2 = case["gate"], case["t1"], case["t2"]
        site["gate"] = g
        sig = {"RX": _X, "RY": _Y, "RZ": _Z}[g]
        m1 = _pol_matrix(g, case["via"], theta=t1)
        m2 = _pol_matrix(g, case["via"], theta=t2)
        m12 = _pol_matrix(g, case["via"], theta=t1 + t2)
        ref = sla.expm(-0.5j * t1 * sig)
        if not _close(m1, ref):
            bad("definition", f"{g}({t1}) differs from exp(-i theta sigma/2): {m1.tolist()} vs {ref.tolist()}")
        if not _unitary(m1):
            bad("unitary", f"{g}({t1}) not unitary")
        if not _close(m1 @ m2, m12, 1e-8):
            bad("additivity", f"{g}({t1}){g}({t2}) != {g}({t1 + t2})")
        info.update(nontrivial=_nontrivial_angle(t1), key=f"rot:{g}:{t1:.6f}:{t2:.6f}")
    elif k == "u3":
        p, t, o = case["phi"], case["theta"], case["omega"]
        m = _pol_matrix("U3", case["via"], phi=p, theta=t, omega=o)
        c, s = math.cos(t / 2), math.sin(t / 2)
        ref = np.array([[c, -np.exp(1j * o) * s], [np.exp(1j * p) * s, np.exp(1j * (p + o)) * c]])
        if not _close(m, ref):
            bad("definition", f"U3({p},{t},{o}) = {m.tolist()} differs from textbook {ref.tolist()}")
        dec = np.exp(0.5j * (p + o)) * sla.expm(-0.5j * p * _Z) @ sla.expm(-0.5j * t * _Y) @ sla.expm(-0.5j * o * _Z)
        if not _close(m, dec, 1e-8):
            bad("decomposition", "U3 != e^{i(phi+omega)/2} RZ(phi) RY(theta) RZ(omega)")
        if not _unitary(m):
            bad("unitary", "U3 not unitary")
        info.update(nontrivial=_nontrivial_angle(p, t, o), key=f"u3:{p:.6f}:{t:.6f}:{o:.6f}")
    elif k == "multi":
        g = case["gate"]
        site["gate"] = g
        n = 3 if g == "CSWAP" else 2
        ref = np.zeros((2**n, 2**n))
        for b in range(2**n):
            bits = [(b >> (n - 1 - i)) & 1 for i in range(n)]
            ph = 1.0
            if g == "CX":
                out = [bits[0], bits[1] ^ bits[0]]
            elif g == "CZ":
                out = bits
                ph = -1.0 if bits == [1, 1] else 1.0
            elif g == "SWAP":
                out = [bits[1], bits[0]]
            else:
                out = [bits[0], bits[2], bits[1]] if bits[0] else bits
            ob = sum(v << (n - 1 - i) for i, v in enumerate(out))
            ref[ob, b] = ph
        fn = {"CX": ops.controlled_not_operator, "CZ": ops.controlled_z_operator, "SWAP": ops.swap_operator,
              "CSWAP": ops.controlled_swap_operator}[g]
        typ = {"CX": "CXPolarization", "CZ": "CZPolarization", "SWAP": "SwapPolarization", "CSWAP": "CSwapPolarization"}[g]
        m = np.asarray(libcall(fn))
        if not _close(m, ref):
            bad("definition", f"{g} differs from textbook")
        op = libcall(Operation, getattr(CompositeOperationType, typ))
        libcall(op.compute_dimensions, [0] * n, [np.array([0])] * n)
        m2 = np.asarray(libcall(lambda: op.operator))
        if not _close(m2, ref):
            bad("operation-interface", f"Operation({typ}).operator differs from textbook")
        info.update(nontrivial=False, key=f"multi:{g}")
    elif k == "ladder":
        n = case["cutoff"]
        a = np.asarray(libcall(ops.annihilation_operator, n))
        ad = np.asarray(libcall(ops.creation_operator, n))
        num = np.asarray(libcall(ops.number_operator, n))
        if a.shape != (n, n) or ad.shape != (n, n):
            bad("shape", f"ladder operators at cutoff {n} have shapes {a.shape},{ad.shape}")
        if not _close(a, _a(n)):
            bad("definition", f"annihilation({n}): a|n> != sqrt(n)|n-1>")
        if not _close(ad, _a(n).conj().T):
            bad("definition", f"creation({n}) is not the adjoint")
        if not _close(num, np.diag(np.arange(n))):
            bad("definition", f"number({n}) != diag(0..n-1)")
        comm = a @ ad - ad @ a
        if n > 1 and not _close(comm[: n - 1, : n - 1], np.eye(n - 1)):
            bad("commutator", f"[a,a+] != 1 below cutoff {n}")
        info.update(nontrivial=False, key=f"ladder:{n}")
    elif k == "phase":
        n, t1, t2 = case["cutoff"], case["t1"], case["t2"]
        m1 = np.asarray(libcall(ops.phase_operator, n, t1))
        m2 = np.asarray(libcall(ops.phase_operator, n, t2))
        m12 = np.asarray(libcall(ops.phase_operator, n, t1 + t2))
        ref = np.diag(np.exp(1j * np.arange(n) * t1))
        if not _close(m1, ref):
            bad("definition", f"phase({n},{t1}) != diag(exp(i n theta))")
        if not _close(m1 @ m2, m12, 1e-7):
            bad("additivity", "phase(t1)phase(t2) != phase(t1+t2)")
        info.update(nontrivial=n > 1 and _nontrivial_angle(t1), key=f"phase:{n}:{t1:.6f}")
    elif k == "displace":
        n = case["cutoff"]
        al = complex(*case["alpha"])
        m = np.asarray(libcall(ops.displacement_operator, n, al))
        a = _a(n)
        ref = sla.expm(al * a.conj().T - np.conj(al) * a)
        if not _close(m, ref, 1e-7):
            bad("definition", f"D({al}) at cutoff {n} differs from expm(alpha a+ - alpha* a) by {np.max(np.abs(m - ref)):.2e}")
        if not _unitary(m, 1e-7):
            bad("unitary", f"D({al}) at cutoff {n} not unitary")
        mbar = abs(al) ** 2
        if n >= mbar + 12 * math.sqrt(mbar + 1) + 14:
            coh = np.array([math.exp(-mbar / 2) * al**j / math.sqrt(math.factorial(j)) for j in range(n)])
            half = n // 2
            if np.max(np.abs(m[:half, 0] - coh[:half])) > 1e-7:
                bad("coherent-state", f"D({al})|0> is not the Poissonian coherent state (cutoff {n})")
            site["closed"] = True
            info["labels"].append("displace-closed-form")
        info.update(nontrivial=_nontrivial_c(case["alpha"]) and n > 2, key=f"displace:{n}:{al:.6f}")
    elif k == "squeeze":
        n = case["cutoff"]
        z = complex(*case["zeta"])
        m = np.asarray(libcall(ops.squeezing_operator, n, z))
        a = _a(n)
        ref = sla.expm(0.5 * (np.conj(z) * (a @ a) - z * (a.conj().T @ a.conj().T)))
        if not _close(m, ref, 1e-7):
            bad("definition", f"S({z}) at cutoff {n} differs from expm(1/2(z* a^2 - z a+^2)) by {np.max(np.abs(m - ref)):.2e}")
        if not _unitary(m, 1e-7):
            bad("unitary", f"S({z}) at cutoff {n} not unitary")
        r, ph = abs(z), np.angle(z)
        if n >= 36 and r <= 0.8:
            sv = np.zeros(n, complex)
            for j in range(0, n // 2):
                sv[2 * j] = (1 / math.sqrt(math.cosh(r))) * ((-np.exp(1j * ph) * math.tanh(r)) ** j) * math.sqrt(math.factorial(2 * j)) / (2**j * math.factorial(j))
            half = n // 3
            if np.max(np.abs(m[:half, 0] - sv[:half])) > 1e-6:
                bad("squeezed-vacuum", f"S({z})|0> is not the even-number squeezed vacuum (cutoff {n})")
            if np.max(np.abs(m[1:half:2, 0])) > 1e-9:
                bad("squeezed-vacuum", "odd components present")
            info["labels"].append("squeeze-closed-form")
        info.update(nontrivial=_nontrivial_c(case["zeta"]) and n > 2, key=f"squeeze:{n}:{z:.6f}")
    elif k == "bs":
        n, eta = case["cutoff"], case["eta"]
        m = np.asarray(libcall(CompositeOperationType.NonPolarizingBeamSplitter.compute_operator, [n, n], eta=eta))
        a = np.kron(_a(n), np.eye(n))
        b = np.kron(np.eye(n), _a(n))
        ref = sla.expm(1j * eta * (a.conj().T @ b + a @ b.conj().T))
        if not _close(m, ref, 1e-7):
            bad("definition", f"BS(eta={eta}) cutoff {n} differs from expm(i eta (a+b + ab+))")
        if not _unitary(m, 1e-7):
            bad("unitary", "BS not unitary")
        ntot = np.add.outer(np.arange(n), np.arange(n)).reshape(-1)
        mask = ntot[:, None] != ntot[None, :]
        if np.max(np.abs(m[mask]), initial=0) > 1e-7:
            bad("number-conservation", "BS couples different total photon numbers")
        if n >= 2:
            col = m[:, 1 * n + 0]
            if abs(col[1 * n + 0] - math.cos(eta)) > 1e-7 or abs(col[0 * n + 1] - 1j * math.sin(eta)) > 1e-7:
                bad("su2", "BS|1,0> != cos(eta)|1,0> + i sin(eta)|0,1>")
        info.update(nontrivial=n >= 2 and _nontrivial_angle(eta), key=f"bs:{n}:{eta:.6f}")
    elif k == "fock_operation":
        typ, nq, extra = case["type"], case["nq"], case["extra"]
        site["type"] = typ
        d0 = nq + extra
        psi = np.zeros((d0, 1), complex)
        psi[nq, 0] = 1.0
        import jax.numpy as jnp

        kw = {}
        if typ == "PhaseShift":
            kw["phi"] = case["angle"]
        if typ == "Displace":
            kw["alpha"] = complex(*case["param"])
        if typ == "Squeeze":
            kw["zeta"] = complex(*case["param"])
        op = libcall(Operation, getattr(FockOperationType, typ), **kw)
        # another operation of the same type with other parameters, constructed later, must not leak into this one
        kw2 = {k_: (v_ * 0.5 + 0.3 if not isinstance(v_, complex) else v_ * (0.5 - 0.25j) + 0.1) for k_, v_ in kw.items()}
        if kw2:
            libcall(Operation, getattr(FockOperationType, typ), **kw2)
        libcall(op.compute_dimensions, nq, jnp.array(psi))
        d = op.dimensions[0]
        m = np.asarray(libcall(lambda: op.operator))
        if m.shape != (d, d):
            bad("operation-interface", f"{typ}: operator shape {m.shape} != dimensions {d}")
        a = _a(d)
        ref = {"Creation": a.conj().T, "Annihilation": a, "Identity": np.eye(d),
               "PhaseShift": np.diag(np.exp(1j * np.arange(d) * case["angle"])),
               "Displace": sla.expm(kw.get("alpha", 0) * a.conj().T - np.conj(kw.get("alpha", 0)) * a),
               "Squeeze": sla.expm(0.5 * (np.conj(kw.get("zeta", 0)) * (a @ a) - kw.get("zeta", 0) * (a.conj().T @ a.conj().T)))}[typ]
        if not _close(m, ref, 1e-7):
            bad("operation-interface", f"Operation({typ}).operator at dimension {d} differs from the constructor's definition")
        need = {"Creation": nq + 2, "Annihilation": max(nq, 1), "Identity": nq + 1, "PhaseShift": nq + 1}.get(typ, nq + 1)
        if d < need:
            bad("operation-dimension", f"{typ} on |{nq}> chose dimension {d} < {need}")
        info.update(nontrivial=typ in ("Displace", "Squeeze", "PhaseShift") and (_nontrivial_c(case["param"]) or typ == "PhaseShift"),
                    key=f"fop:{typ}:{nq}:{extra}:{case['param']}:{case['angle']:.4f}")
    else:
        raise RuntimeError("unknown case kind " + k)
    return info
