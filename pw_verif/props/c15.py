"""C15 - Operation objects are pure, reusable descriptions."""
import numpy as np
from hypothesis import strategies as st

from pw_verif import actions, ref
from pw_verif import strategies as S
from pw_verif.engine import PrepFailed, Run
from pw_verif.harness import LibRaised, Violation, case_hash, libcall
from pw_verif.props._machine import worker_init  # noqa: F401
from pw_verif.snap import Malformed, snapshot

PROP = "C15"
LEVEL = "exploration"
BUDGET = {"quick": 960, "thorough": 9000}
MIN_PER_SHARD = 10
RULE = (
    "A world (as in C01, Fock modes with different cut-offs), 2-3 operation 'slots' (generated descriptions: same "
    "or different type; in particular pairs of composite Expression operations with different operand types, "
    "pairs of the same Fock type with different parameters) and a generated schedule of 3-8 events "
    "construct(slot) / failed-construct(slot's type, a required parameter missing, other operand types) / apply(slot, entry, operands) in which slots are re-constructed and re-applied to operands "
    "of different dimension and in different containers. Twin A executes the schedule with one long-lived "
    "Operation object per slot; twin B, on an identically prepared world, applies a freshly constructed equal "
    "Operation at every apply and performs no other constructions. Oracle (metamorphic): after every apply both "
    "twins agree on accept/reject and on the joint density matrix (<= 1e-9; 1e-6 when a slot goes through a matrix exponential; 1e-2 after displacement/squeezing); "
    "numpy arrays handed to the library (custom operator matrices, Kraus lists, POVM lists; every subsystem of the "
    "world, through its own entry point) are bit-identical afterwards. "
    "Non-trivial = a slot is applied after another slot of the same operation type (different parameters / "
    "operand types / target dimension) was constructed or applied; distinct = hash of (slots, schedule, layout)."
)
ASSUMPTIONS = ["reference self-tests passed", "both twins start from identically prepared worlds (same generated layout and states)",
               "per-type mutable fields are reset at the start of each twin (emulating a fresh process)"]


def _same_type_other_params(draw, op):
    import copy

    o = copy.deepcopy(op)
    if "useed" in o:
        o["useed"] = draw(S.seeds)
    if "params" in o:
        for k, v in list(o["params"].items()):
            if isinstance(v, list):
                o["params"][k] = draw(S.small_c) if o["type"] != "fock:Squeeze" else [0.5 * x for x in draw(S.small_c)]
            else:
                o["params"][k] = draw(S.angle)
    if "factors" in o:
        for f in o["factors"]:
            if "useed" in f:
                f["useed"] = draw(S.seeds)
            if "phi" in f:
                f["phi"] = draw(S.angle)
        if draw(st.booleans()) and len(o["factors"]) >= 2 and o["factors"][0]["kind"] == o["factors"][1]["kind"]:
            pass
    return o


@st.composite
def _case(draw):
    spec, layout = draw(S.world_and_layout(min_envs=2, max_envs=3, need_ce=True, fdims=(2, 3, 4), max_joint=300))
    info = S.Info(spec, layout)
    mem = info.ce_members["ce0"]
    slots = []
    nslots = draw(st.integers(2, 3))
    # bias towards same-type pairs
    base_kind = draw(st.sampled_from(["fock", "pol", "comp", "comp", "custom", "mixed"]))
    for i in range(nslots):
        kind = base_kind if base_kind != "mixed" else draw(st.sampled_from(["fock", "pol", "comp"]))
        if kind == "custom" and not any(info.kind[s] == "custom" for s in info.subs):
            kind = "pol"
        # the interesting interference is between operations of the SAME type: often clone the first
        # slot's type with other parameters
        if slots and draw(st.integers(0, 2)) > 0:
            first = slots[0]
            op2 = _same_type_other_params(draw, first["op"])
            slots.append(dict(op=op2, default_targets=first["default_targets"], dims=first["dims"]))
            continue
        cs = S.comp_op(info, mem) if kind == "comp" else None
        if kind == "comp" and cs is None:
            kind = "pol"
        if kind == "comp":
            c = draw(cs)
            slots.append(dict(op=c["op"], default_targets=c["targets"], dims=[info.dim[t] for t in c["targets"]]))
        else:
            t = draw(st.sampled_from([s for s in info.subs if info.kind[s] == kind]))
            opst = S.op_for_kind(kind, allow_big=draw(st.booleans()))
            if kind == "fock":
                # user-sized operators carry per-object size information: the interesting case for re-use
                opst = st.one_of(opst, opst, st.builds(lambda s_: dict(type="fock:Custom", useed=s_), S.seeds))
            slots.append(dict(op=draw(opst), default_targets=[t], dims=[info.dim[t]]))
    events = []
    for _ in range(draw(st.integers(3, 8))):
        i = draw(st.integers(0, nslots - 1))
        r_ = draw(st.integers(0, 8))
        if r_ == 0:
            # a construction that FAILS (a required parameter is missing, for Expression types with other
            # operand types): it must not leave anything behind on the shared operation type
            events.append(dict(ev="construct_bad", slot=i, variant=draw(st.integers(0, 3))))
        elif r_ <= 3:
            events.append(dict(ev="construct", slot=i))
        else:
            op = slots[i]["op"]
            kinds = actions.operand_kinds(op)
            # operands of the right kinds; sometimes the default ones, sometimes others (other dimension / container)
            applied_before = sum(1 for e_ in events if e_["ev"] == "apply" and e_["slot"] == i)
            focks_in_ce = [s_ for s_ in mem if info.kind[s_] == "fock"]
            if op["type"] == "comp:BS" and len(focks_in_ce) >= 3 and draw(st.booleans()):
                # re-use of one beam-splitter object on pairs that need a growing cut-off: order the candidate
                # pairs by the photon number they start with and take the (applied_before)-th smallest
                occ = {f_: info.spec["envs"][int(f_[1:].split(".")[0])].get("fock", 0) for f_ in focks_in_ce}
                pairs = sorted(((occ[a_] + occ[b_], a_, b_) for a_ in focks_in_ce for b_ in focks_in_ce if a_ < b_))
                tot, a_, b_ = pairs[min(applied_before, len(pairs) - 1)]
                ts = [a_, b_] if draw(st.booleans()) else [b_, a_]
            elif op["type"] == "fock:Custom" and applied_before == 0 and draw(st.booleans()):
                # first send the user-sized operator to a mode that is occupied beyond the operator's size (the
                # library has to refuse), later to the mode it was sized for: the refusal must leave no trace
                k_ = slots[i]["dims"][0]
                over = [f_ for f_ in info.subs if info.kind[f_] == "fock" and f_.startswith("e") and info.spec["envs"][int(f_[1:].split(".")[0])].get("fock", 0) >= k_]
                ts = [draw(st.sampled_from(over))] if over else slots[i]["default_targets"]
                forced_over = bool(over)
            elif draw(st.booleans()):
                ts = slots[i]["default_targets"]
            else:
                ts = []
                for k in kinds:
                    pool = [s for s in (mem if len(kinds) > 1 else info.subs) if info.kind[s] == k and s not in ts]
                    if not pool:
                        ts = slots[i]["default_targets"]
                        break
                    ts.append(draw(st.sampled_from(pool)))
            if len(kinds) > 1:
                entry = "ce0"
            else:
                es = ["state"] + (["env"] if info.env_of(ts[0]) else []) + info.ces_of(ts[0])
                entry = draw(st.sampled_from(es))
            # now and then a user-sized operation is sent to a target of another size on purpose: the library
            # refuses (or resizes); either way the operation object must behave like a fresh one afterwards
            was_over = bool(locals().get("forced_over", False))
            events.append(dict(ev="apply", slot=i, entry=entry, targets=list(ts), force=(draw(st.integers(0, 4)) == 0) or was_over))
            forced_over = False
            if was_over:
                # ... and afterwards to the mode it was built for
                dt = slots[i]["default_targets"]
                events.append(dict(ev="apply", slot=i, entry=draw(st.sampled_from(["state"] + (["env"] if info.env_of(dt[0]) else []) + info.ces_of(dt[0]))), targets=list(dt), force=False))
    return dict(spec=spec, layout=layout, contraction=draw(st.booleans()), slots=slots, events=events)


def strategy(tier):
    return _case()


def _bad_construction(opdesc, variant):
    """try to construct an operation of the same type with a required parameter missing"""
    from photon_weave.operation import CompositeOperationType, CustomStateOperationType, FockOperationType, Operation, PolarizationOperationType
    from photon_weave.state.custom_state import CustomState
    from photon_weave.state.fock import Fock
    from photon_weave.state.polarization import Polarization

    fam, name = opdesc["type"].split(":")
    try:
        if fam == "comp" and name == "Expression":
            types = [(Fock, Fock), (Polarization, Polarization), (CustomState, Fock), (Polarization,)][variant % 4]
            Operation(CompositeOperationType.Expression, state_types=types, context={})      # 'expr' missing
        elif fam == "comp" and name == "BS":
            Operation(CompositeOperationType.NonPolarizingBeamSplitter)
        elif fam == "fock":
            typ = {"PhaseShift": FockOperationType.PhaseShift, "Displace": FockOperationType.Displace, "Squeeze": FockOperationType.Squeeze,
                   "Custom": FockOperationType.Custom, "Expresion": FockOperationType.Expresion}.get(name, FockOperationType.PhaseShift)
            Operation(typ)
        elif fam == "pol":
            Operation({"U3": PolarizationOperationType.U3, "Custom": PolarizationOperationType.Custom}.get(name, PolarizationOperationType.RX))
        elif fam == "custom":
            Operation(CustomStateOperationType.Custom if name == "Custom" else CustomStateOperationType.Expresion)
        else:
            Operation(CompositeOperationType.Expression, state_types=(Polarization, Fock), context={})
    except Exception:  # the failure itself is expected
        pass


def _tdims(w, targets):
    return [w.dim(t) if w.dim(t) > 0 else (int(w.obj[t].state) + 2 if isinstance(w.obj[t].state, int) else 2) for t in targets]


def _apply(run, op, entry, targets):
    w = run.world
    objs = [w.obj[t] for t in targets]
    if entry == "state":
        libcall(objs[0].apply_operation, op)
    elif entry == "env":
        libcall(w.envs[w.env_of[targets[0]]].apply_operation, op, *objs)
    else:
        libcall(w.ces[entry].apply_operation, op, *objs)


def _twin(case, shared: bool):
    run = Run(case["spec"], case["layout"], case["contraction"])
    w = run.world
    ops = {}
    trace = []
    for ev in case["events"]:
        slot = case["slots"][ev["slot"]]
        fam = slot["op"]["type"].split(":")[0]
        if ev["ev"] == "construct_bad":
            if shared:
                _bad_construction(slot["op"], ev.get("variant", 0))
            continue
        if ev["ev"] == "construct":
            if shared:
                # sized operators (Custom) are built for the slot's default operands
                try:
                    ops[ev["slot"]] = libcall(actions.make_operation, slot["op"], slot["dims"])
                except LibRaised as e:
                    trace.append(("construct-raised", e.etype))
            continue
        targets = ev["targets"]
        if any(getattr(w.obj[t], "measured", False) for t in targets):
            trace.append(("skip",))
            continue
        # user-sized operators only make sense on operands of the size they were built for
        sized = slot["op"]["type"] in ("fock:Custom", "custom:Custom", "custom:Expresion") or (
            slot["op"]["type"] == "comp:Expression" and any(f["kind"] == "custom" for f in slot["op"]["factors"]))
        if sized and _tdims(w, targets) != list(slot["dims"]) and not ev.get("force"):
            trace.append(("skip",))
            continue
        if shared:
            if ev["slot"] not in ops:
                try:
                    ops[ev["slot"]] = libcall(actions.make_operation, slot["op"], slot["dims"])
                except LibRaised as e:
                    trace.append(("construct-raised", e.etype))
                    continue
            op = ops[ev["slot"]]
        else:
            try:
                op = libcall(actions.make_operation, slot["op"], slot["dims"])
            except LibRaised as e:
                trace.append(("construct-raised", e.etype))
                continue
        try:
            _apply(run, op, ev["entry"], targets)
            status = "applied"
        except LibRaised as e:
            status = "raised:" + e.sig()
        try:
            s = snapshot(w)
            trace.append((status, s.names, s.dims, s.rho))
        except Malformed as m:
            trace.append((status, "malformed", m.what, None))
    return trace


def _user_arrays_untouched(case, labels):
    """numpy arrays handed to the library (custom operators, Kraus lists, POVM lists) must be bit-identical afterwards"""
    from photon_weave.operation import CustomStateOperationType, Operation, PolarizationOperationType
    from pw_verif.program import kraus_ops, povm_ops

    run = Run(case["spec"], case["layout"], case["contraction"])
    w = run.world
    seed = len(case["events"]) * 7 + len(case["layout"])
    checked = 0
    for name, obj in w.subs:
        kind = w.kind[name]
        if getattr(obj, "measured", False):
            continue
        d = 2 if kind == "pol" else int(obj.dimensions)
        if d < 1 or d > 6:
            continue
        arrays = []
        try:
            if kind in ("pol", "custom"):
                m = np.array(actions.seeded_matrix(seed + checked, d, True))
                keep = m.copy()
                typ = PolarizationOperationType.Custom if kind == "pol" else CustomStateOperationType.Custom
                op = libcall(Operation, typ, operator=m)
                libcall(obj.apply_operation, op)
                libcall(obj.apply_operation, op)
                arrays.append(("custom operator", m, keep))
            ks = [np.array(k) for k in kraus_ops(seed + checked, d, 2, False)]
            kkeep = [k.copy() for k in ks]
            libcall(obj.apply_kraus, ks)
            arrays += [("Kraus operator", a_, b_) for a_, b_ in zip(ks, kkeep)]
            if kind == "custom":
                ms = [np.array(m_) for m_ in povm_ops(seed + checked, d, 2, False)]
                mkeep = [m_.copy() for m_ in ms]
                libcall(obj.measure_POVM, ms, destructive=False)
                arrays += [("measurement operator", a_, b_) for a_, b_ in zip(ms, mkeep)]
        except LibRaised:
            labels.append("array-arm-call-raised")
            continue
        for what, now, before in arrays:
            if now.shape != before.shape or now.dtype != before.dtype or not np.array_equal(now, before):
                raise Violation("user-array-modified", f"a numpy {what} supplied by the caller was modified by the call on {name}", dict(action="arrays", what=what.split()[0], kind=kind))
        checked += 1
    labels.append(f"user-arrays-checked:{min(checked, 6)}")


def run_case(case):
    try:
        a = _twin(case, shared=True)
        b = _twin(case, shared=False)
    except PrepFailed:
        return dict(nontrivial=False, key=None, labels=["prep-failed"])
    except Malformed:
        return dict(nontrivial=False, key=None, labels=["abandoned-malformed"])
    labels = []
    applied = 0
    trunc = False
    for i, (x, y) in enumerate(zip(a, b)):
        ev = [e for e in case["events"] if e["ev"] == "apply"]
        if x[0] == "skip" and y[0] == "skip":
            continue
        site = dict(action="reuse", optype=case["slots"][0]["op"]["type"].split(":")[0])
        if x[0].split(":")[0] != y[0].split(":")[0]:
            raise Violation("accept-reject", f"apply #{i}: long-lived Operation object: {x[0]}; freshly constructed equal Operation: {y[0]}", dict(site, what="status"))
        if x[0] != "applied":
            # both twins refused the request; what follows must still agree
            labels.append("both-" + x[0].split("@")[0][:24])
            if x[1] == "malformed" or y[1] == "malformed":
                break
            continue
        if x[1] == "malformed" or y[1] == "malformed":
            break
        applied += 1
        if x[1] != y[1]:
            raise Violation("twin-live-set", f"apply #{i}: live subsystems differ {x[1]} vs {y[1]}", dict(site, what="names"))
        cd = [max(p, q) for p, q in zip(x[2], y[2])]
        td = ref.trace_distance(ref.pad(x[3], x[2], cd), ref.pad(y[3], y[2], cd))
        trunc = trunc or any(s["op"]["type"] in ("fock:Displace", "fock:Squeeze") for s in case["slots"])
        expm_ops = any(s["op"]["type"] in ("comp:BS", "fock:Expresion", "comp:Expression") for s in case["slots"])
        if td > (1e-2 if trunc else (1e-6 if expm_ops else 1e-9)):
            raise Violation("twin-state", f"apply #{i}: re-used Operation object and freshly constructed equal Operation lead to joint states {td:.3e} apart", dict(site, what="state"))
    _user_arrays_untouched(case, labels)
    types = [s["op"]["type"] for s in case["slots"]]
    nontrivial = applied >= 1 and len(set(types)) < len(types)
    labels.append("slots:" + "+".join(sorted(set(t.split(":")[0] for t in types))))
    labels.append(f"applies-compared:{min(applied, 8)}")
    return dict(nontrivial=nontrivial, key=case_hash([case["slots"], case["events"], case["layout"]]), labels=labels)
