"""C11 - passive linear optics conserves photon number (beam splitter, phase shifter, Mach-Zehnder)."""
import math

import numpy as np
from hypothesis import strategies as st

from pw_verif import ref
from pw_verif import strategies as S
from pw_verif.harness import LibRaised, Violation, case_hash, libcall
from pw_verif.props._machine import run_program_case, worker_init  # noqa: F401
from pw_verif.sampler import SAMPLER
from pw_verif.snap import snapshot
from pw_verif.world import World, reset_library_globals

PROP = "C11"
LEVEL = "exploration"
BUDGET = {"quick": 480, "thorough": 6000}
MIN_PER_SHARD = 10
RULE = (
    "(a) Interferometer meshes: worlds with 2-3 envelopes in one composite envelope, Fock modes with cut-off 2-3 "
    "holding number states with unequal occupation, superpositions, mixtures and states entangled with "
    "polarization / other modes, in every storage layout; programs of 1-6 beam splitters on ordered mode pairs "
    "(eta in [-4pi,4pi]) and phase shifters (phi in [-4pi,4pi]) through all entry points. Oracle: the "
    "total-photon-number distribution of the modes involved, computed from the joint density matrix "
    "reconstructed before and after each call, is unchanged (<= 1e-8), and the state equals the SU(2) reference "
    "exp(i eta(a+b+ab+)) / exp(i phi n) computed at cut-off N_tot+1 (<= 1e-6). (b) Mach-Zehnder: the program of "
    "examples/mach_zehnder_interferometer.py with generated phi (phase applied through subsystem, envelope or "
    "composite entry): detection probabilities read from the intercepted sampler and from the final state must "
    "be sin^2(phi/2) at the input port's detector and cos^2(phi/2) at the other, for every phi. Non-trivial = a "
    "beam splitter acted on modes with N_tot >= 1 and unequal occupations or a superposition of different totals; "
    "distinct = hash of the program."
)
from pw_verif.props._machine import HISTORY_NOTE, SURVIVOR_NOTE  # noqa: E402,F401

RULE += HISTORY_NOTE
ASSUMPTIONS = ["reference self-tests passed", "photon number per mode <= 3 before the mesh", "beam splitter generator as documented: exp(i eta (a+b + a b+))"]


@st.composite
def _case(draw):
    if draw(st.integers(0, 3)) == 0:
        return dict(kind="mz", phi=draw(S.angle), phase_entry=draw(st.sampled_from(["state", "env", "ce"])),
                    second_input=draw(st.booleans()), measure_entry=draw(st.sampled_from(["state", "ce"])))
    c = draw(S.program_case(["bs", "bs", "phase"], max_steps=6, world_kwargs=dict(min_envs=2, max_envs=3, need_ce=True, fdims=(2, 3), max_customs=1,
                                                                                 max_joint=300, classes=["basis", "product", "pure", "mixed", "lowphoton", "lowphoton", "nearlypure"])))
    c["kind"] = "mesh"
    return c


def strategy(tier):
    return _case()


def fixed_cases(tier):
    return [dict(kind="mz", phi=p, phase_entry=e, second_input=False, measure_entry="state")
            for p in (0.0, math.pi / 2, math.pi, 1.0, -2.5, 7.0) for e in ("state", "env", "ce")]


def run_case(case):
    if case["kind"] == "mesh":
        r = run_program_case(case, PROP, focus_kinds=("op",))
        r["labels"].append("mesh")
        occ = [e.get("fock", 0) for e in case["spec"]["envs"]]
        r["nontrivial"] = (sum(occ) >= 1 and len(set(occ)) > 1) or any(b.get("state", {}).get("cls") in ("pure", "mixed", "lowphoton", "product") for b in case["layout"])
        return r
    return _mz(case)


def _mz(case):
    import jax.numpy as jnp
    from photon_weave.operation import CompositeOperationType, FockOperationType, Operation
    from photon_weave.state.composite_envelope import CompositeEnvelope
    from photon_weave.state.envelope import Envelope

    phi = float(case["phi"])
    reset_library_globals(0, True)
    SAMPLER.install()
    SAMPLER.reset()
    site = dict(action="mz", phase_entry=case["phase_entry"], measure_entry=case["measure_entry"])
    try:
        env1 = Envelope()
        env2 = Envelope()
        src, oth = (env2, env1) if case["second_input"] else (env1, env2)
        src.fock.state = 1
        bs1 = libcall(Operation, CompositeOperationType.NonPolarizingBeamSplitter, eta=jnp.pi / 4)
        ps = libcall(Operation, FockOperationType.PhaseShift, phi=phi)
        bs2 = libcall(Operation, CompositeOperationType.NonPolarizingBeamSplitter, eta=jnp.pi / 4)
        ce = libcall(CompositeEnvelope, env1, env2)
        libcall(ce.apply_operation, bs1, env1.fock, env2.fock)
        if case["phase_entry"] == "state":
            libcall(env1.fock.apply_operation, ps)
        elif case["phase_entry"] == "env":
            libcall(env1.apply_operation, ps, env1.fock)
        else:
            libcall(ce.apply_operation, ps, env1.fock)
        libcall(ce.apply_operation, bs2, env1.fock, env2.fock)
    except LibRaised as e:
        raise Violation("raised", f"Mach-Zehnder program raised {e}", dict(site, sig=e.sig()))

    class W:  # minimal world for the snapshot
        pass

    w = World(dict(envs=[], customs=[], ces=[]))
    w.envs = {"e0": env1, "e1": env2}
    w.ces = {"ce0": ce}
    for n, s, k in (("e0.f", env1.fock, "fock"), ("e0.p", env1.polarization, "pol"), ("e1.f", env2.fock, "fock"), ("e1.p", env2.polarization, "pol")):
        w.subs.append((n, s))
        w.kind[n] = k
        w.obj[n] = s
        w.env_of[n] = n.split(".")[0]
    snap = snapshot(w)
    d1 = ref.diag_marginal(snap.rho, snap.dims, snap.names.index("e0.f"))
    d2 = ref.diag_marginal(snap.rho, snap.dims, snap.names.index("e1.f"))
    # photon enters at env1 (or env2): the detector behind the input port's own mode sees sin^2(phi/2)
    p_same, p_other = math.sin(phi / 2) ** 2, math.cos(phi / 2) ** 2
    if case["second_input"]:
        # phase is on arm 1, photon entered at port 2: same formulas with the ports exchanged
        want1, want2 = p_other, p_same
    else:
        want1, want2 = p_same, p_other
    got1 = float(d1[1]) if len(d1) > 1 else 0.0
    got2 = float(d2[1]) if len(d2) > 1 else 0.0
    if abs(got1 - want1) > 1e-7 or abs(got2 - want2) > 1e-7:
        raise Violation("mz-state", f"phi={phi}: P(detector 1)={got1:.8f}, P(detector 2)={got2:.8f}; expected {want1:.8f}, {want2:.8f}", dict(site, what="state"))
    tot = ref.number_distribution(snap.rho, snap.dims, [snap.names.index("e0.f"), snap.names.index("e1.f")], 4)
    if abs(tot[1] - 1) > 1e-8:
        raise Violation("number-distribution", f"total photon number distribution after the interferometer {tot.tolist()}", dict(site, what="total"))
    # detection: intercepted probabilities
    SAMPLER.reset()
    try:
        if case["measure_entry"] == "state":
            out1 = libcall(env1.fock.measure)
            out2 = libcall(env2.fock.measure)
        else:
            out1 = libcall(ce.measure, env1.fock)
            out2 = libcall(ce.measure, env2.fock)
    except LibRaised as e:
        raise Violation("raised", f"detection raised {e}", dict(site, sig=e.sig()))
    n1 = [v for k, v in out1.items() if k is env1.fock]
    n2 = [v for k, v in out2.items() if k is env2.fock]
    if len(n1) != 1 or len(n2) != 1 or n1[0] + n2[0] != 1:
        raise Violation("mz-detection", f"detectors reported {n1} and {n2} photons for a single-photon input", dict(site, what="clicks"))
    first = next((r for r in SAMPLER.log if r["p"] is not None and len(r["p"]) >= 2 and np.max(r["p"]) < 1 - 1e-12), None)
    if first is not None:
        p = np.asarray(first["p"], float)
        p = p / p.sum()
        if min(abs(p[1] - want1), abs(p[1] - want2)) > 1e-7 and 1e-9 < want1 < 1 - 1e-9:
            raise Violation("mz-probabilities", f"phi={phi}: first non-trivial detection draw used p={p.tolist()}, expected a click probability of {want1:.8f} (or {want2:.8f})", dict(site, what="p"))
    nontrivial = abs(math.sin(phi)) > 1e-3
    return dict(nontrivial=nontrivial, key=f"mz:{phi:.6f}:{case['phase_entry']}:{case['second_input']}:{case['measure_entry']}", labels=["mz", "mz-phase-via-" + case["phase_entry"]])
