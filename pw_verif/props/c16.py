"""C16 - the expression interpreter computes the documented algebra, side-effect free."""
import copy
import functools
import math

import numpy as np
import scipy.linalg as sla
from hypothesis import strategies as st

from pw_verif.harness import LibRaised, Violation, libcall

PROP = "C16"
LEVEL = "exploration"
BUDGET = {"quick": 1600, "thorough": 30000}
RULE = (
    "Hypothesis grows typed expression trees (scalar | square matrix of size n in {1,2,3,4}) to depth "
    "<=4 over add (n-ary), sub, s_mult (n-ary), m_mult (n-ary), kron (n-ary, every ordered factorisation into 2-4 factors incl. 1x1 factors), expm, div, with leaves: "
    "python int/float/complex, numpy arrays, jax arrays and context names whose callables read "
    "dims[k] of a generated dimension list (length 1-3); plus malformed heads (unknown text, ints, "
    "None). Oracle: an independent numpy evaluator (functools.reduce with +,-,*,@,np.kron,/ and "
    "scipy expm), relative 1e-9; deep copies of every caller-owned array leaf and of the context "
    "outputs are compared bit-for-bit after evaluation; unknown head must raise. Non-trivial = the "
    "tree contains a non-commutative node (sub, div, m_mult, kron) with unequal arguments or a "
    "numpy-array leaf in first position of s_mult/m_mult/add; distinct = structural hash of the tree."
)
ASSUMPTIONS = [
    "divisors are bounded away from zero (|x|>=0.25 element-wise), expm arguments have norm <= 3",
    "context callables return a fresh or shared array; shared arrays must not be modified either",
    "relative tolerance 1e-9 (absolute floor 1e-9)",
]

# ---------------------------------------------------------------------------------------------
# expression description (JSON) -> (library expr, context, reference value)
#   node: {"t":"num","v":[re,im]|float|int,"py":"int|float|complex"}
#         {"t":"arr","kind":"np|jnp","re":[[..]],"im":[[..]]}
#         {"t":"ctx","name":"k0","kind":"eye|ramp|number","idx":k, "cache":bool}
#         {"t":"op","op":"add",...,"args":[...]}
# ---------------------------------------------------------------------------------------------
scal_leaf = st.one_of(
    st.builds(lambda v: dict(t="num", py="int", v=v), st.integers(-3, 3).filter(lambda x: x != 0)),
    st.builds(lambda v: dict(t="num", py="float", v=v), st.floats(0.25, 2.0) | st.floats(-2.0, -0.25)),
    st.builds(lambda a, b: dict(t="num", py="complex", v=[a, b]), st.floats(0.25, 1.5), st.floats(-1.5, 1.5)),
)


def mat_leaf(n):
    el = st.floats(0.25, 1.5) | st.floats(-1.5, -0.25)
    rows = st.lists(st.lists(el, min_size=n, max_size=n), min_size=n, max_size=n)
    return st.one_of(
        st.builds(lambda k, re, im, c: dict(t="arr", kind=k, re=re, im=im if c else None), st.sampled_from(["np", "jnp"]), rows, rows, st.booleans()),
    )


def ctx_leaf(n, dims):
    idxs = [i for i, d in enumerate(dims) if d == n]
    if not idxs:
        return None
    return st.builds(lambda i, kind, cache: dict(t="ctx", name=f"{kind}{i}{'c' if cache else ''}", kind=kind, idx=i, cache=cache),
                     st.sampled_from(idxs), st.sampled_from(["eye", "ramp", "number"]), st.booleans())


def expr_strategy(n, dims, depth):
    """strategy for an expression of type matrix(n) (n>=1) or scalar (n==0)"""
    if n == 0:
        if depth == 0:
            return scal_leaf
        sub = st.deferred(lambda: expr_strategy(0, dims, depth - 1))
        return st.one_of(
            scal_leaf,
            st.builds(lambda a: dict(t="op", op="add", args=a), st.lists(sub, min_size=1, max_size=4)),
            st.builds(lambda a, b: dict(t="op", op="sub", args=[a, b]), sub, sub),
            st.builds(lambda a: dict(t="op", op="s_mult", args=a), st.lists(sub, min_size=1, max_size=4)),
            st.builds(lambda a, b: dict(t="op", op="div", args=[a, b]), sub, scal_leaf),
        )
    leaves = [mat_leaf(n)]
    cl = ctx_leaf(n, dims)
    if cl is not None:
        leaves.append(cl)
        leaves.append(cl)
    leaf = st.one_of(*leaves)
    if depth == 0:
        return leaf
    sub = st.deferred(lambda: expr_strategy(n, dims, depth - 1))
    ssub = st.deferred(lambda: expr_strategy(0, dims, depth - 1))
    opts = [
        leaf,
        st.builds(lambda a: dict(t="op", op="add", args=a), st.lists(sub, min_size=1, max_size=4)),
        st.builds(lambda a, b: dict(t="op", op="sub", args=[a, b]), sub, sub),
        st.builds(lambda a: dict(t="op", op="m_mult", args=a), st.lists(sub, min_size=1, max_size=4)),
        # scalar product: scalars and exactly one matrix at a generated position
        st.builds(lambda ss, m, pos: dict(t="op", op="s_mult", args=ss[: pos % (len(ss) + 1)] + [m] + ss[pos % (len(ss) + 1):]),
                  st.lists(ssub, min_size=1, max_size=3), sub, st.integers(0, 3)),
        st.builds(lambda a, b: dict(t="op", op="div", args=[a, b]), sub, st.one_of(scal_leaf, mat_leaf(n))),
        st.builds(lambda a: dict(t="op", op="expm", args=[a]), leaf),
    ]
    # n-ary kron over every ordered factorisation of n into 2-4 factors from {1,2,3,4} (1x1 factors included)
    def factorisations(m, k):
        if k == 1:
            return [(m,)] if m in (1, 2, 3, 4) else []
        out = []
        for f in (1, 2, 3, 4):
            if m % f == 0:
                out += [(f,) + rest for rest in factorisations(m // f, k - 1)]
        return out
    nary = [fz for k in (2, 3, 4) for fz in factorisations(n, k) if sum(1 for f in fz if f > 1) <= 2]
    if nary:
        def mk_kron(fz):
            return st.tuples(*[st.deferred(lambda f=f: expr_strategy(f, dims, 0 if len(fz) > 2 else depth - 1)) for f in fz]).map(
                lambda parts: dict(t="op", op="kron", args=list(parts)))
        opts.append(st.sampled_from(nary).flatmap(mk_kron))
        opts.append(st.sampled_from(nary).flatmap(mk_kron))
    # kron: factor n into sizes
    facs = [(p, n // p) for p in range(1, n + 1) if n % p == 0 and 1 < p < n]
    for p, q in facs:
        opts.append(st.builds(lambda a, b: dict(t="op", op="kron", args=[a, b]),
                              st.deferred(lambda p=p: expr_strategy(p, dims, depth - 1)),
                              st.deferred(lambda q=q: expr_strategy(q, dims, depth - 1))))
    if n == 4:
        two = st.deferred(lambda: expr_strategy(2, dims, 0))
        one = st.deferred(lambda: expr_strategy(1, dims, 0))
        opts.append(st.builds(lambda a, b, c, pos: dict(t="op", op="kron", args=[a, b][:pos] + [c] + [a, b][pos:]), two, two, one, st.integers(0, 2)))
    return st.one_of(*opts)


@st.composite
def _case(draw):
    dims = draw(st.lists(st.integers(1, 4), min_size=1, max_size=3))
    if draw(st.integers(0, 9)) == 0:
        head = draw(st.one_of(st.text(min_size=0, max_size=6).filter(lambda s: s not in ("add", "sub", "s_mult", "m_mult", "kron", "expm", "div")),
                              st.integers(-3, 3), st.none(),
                              st.sampled_from(["ADD", "mult", "mul", "exp", "Kron", "divide", "neg", "add ", "dot"])))
        arg = draw(expr_strategy(draw(st.sampled_from([0] + dims)), dims, 1))
        return dict(kind="malformed", dims=dims, head=head, args=[arg, arg])
    n = draw(st.sampled_from([0] + dims + dims))
    depth = draw(st.integers(1, 4))
    return dict(kind="eval", dims=dims, n=n, expr=draw(expr_strategy(n, dims, depth)))


def strategy(tier):
    return _case()


def _ctx_value(kind, d):
    if kind == "eye":
        return np.eye(d)
    if kind == "ramp":
        return (np.arange(d * d).reshape(d, d) + 1.0) / (d * d) + 0.5j * np.eye(d)
    a = np.zeros((d, d))
    for k in range(d):
        a[k, k] = k + 0.5
    return a


class Built:
    def __init__(self):
        self.owned = []      # (path, array object handed to the library)
        self.context = {}
        self.ctx_cache = {}
        self.ctx_calls = []
        self.nontrivial = False


def build(node, b: Built, path="r"):
    """returns (library expression, reference numpy value)"""
    import jax.numpy as jnp

    t = node["t"]
    if t == "num":
        if node["py"] == "complex":
            v = complex(*node["v"])
        else:
            v = node["v"]
        return v, np.asarray(v)
    if t == "arr":
        m = np.array(node["re"], dtype=float)
        if node["im"] is not None:
            m = m + 1j * np.array(node["im"], dtype=float)
        ref = np.array(m, copy=True)
        obj = np.array(m, copy=True) if node["kind"] == "np" else jnp.array(m)
        b.owned.append((path, obj, np.array(m, copy=True)))
        return obj, ref
    if t == "ctx":
        name, kind, idx, cache = node["name"], node["kind"], node["idx"], node["cache"]
        if name not in b.context:
            if cache:
                # the callable hands out the SAME caller-owned numpy array each time
                def fn(dims, _k=kind, _i=idx, _n=name):
                    key = (_n, dims[_i])
                    if key not in b.ctx_cache:
                        arr = np.array(_ctx_value(_k, dims[_i]))
                        b.ctx_cache[key] = (arr, np.array(arr, copy=True))
                    b.ctx_calls.append((_n, list(dims)))
                    return b.ctx_cache[key][0]
            else:
                def fn(dims, _k=kind, _i=idx, _n=name):
                    b.ctx_calls.append((_n, list(dims)))
                    return jnp.array(_ctx_value(_k, dims[_i]))
            b.context[name] = fn
        return name, ("ctx", kind, idx)
    op = node["op"]
    parts = [build(a, b, f"{path}.{op}{i}") for i, a in enumerate(node["args"])]
    return (op, *[p[0] for p in parts]), ("op", op, [p[1] for p in parts])


def ref_eval(r, dims):
    if isinstance(r, np.ndarray):
        return r
    if r[0] == "ctx":
        return _ctx_value(r[1], dims[r[2]])
    _, op, args = r
    vals = [ref_eval(a, dims) for a in args]
    if op == "add":
        return functools.reduce(lambda x, y: x + y, vals)
    if op == "sub":
        return vals[0] - vals[1]
    if op == "s_mult":
        return functools.reduce(lambda x, y: x * y, vals)
    if op == "m_mult":
        return functools.reduce(lambda x, y: x @ y, vals)
    if op == "kron":
        return functools.reduce(np.kron, vals)
    if op == "expm":
        return sla.expm(np.atleast_2d(vals[0]))
    if op == "div":
        return vals[0] / vals[1]
    raise RuntimeError(op)


def _struct(node):
    if node["t"] == "op":
        return "(" + node["op"] + " " + " ".join(_struct(a) for a in node["args"]) + ")"
    if node["t"] == "num":
        return f"{node['py']}:{node['v']}"
    if node["t"] == "arr":
        return f"{node['kind']}{len(node['re'])}{'c' if node['im'] is not None else 'r'}:{hash(str(node['re'])+str(node['im'])) % 100000}"
    return node["name"]


def _nontrivial(node):
    if node["t"] != "op":
        return False
    args = node["args"]
    if node["op"] in ("sub", "div", "m_mult", "kron") and len(args) >= 2 and any(_struct(a) != _struct(args[0]) for a in args[1:]):
        return True
    if node["op"] in ("s_mult", "m_mult", "add") and len(args) >= 2 and args[0]["t"] in ("arr",) and args[0].get("kind") == "np":
        return True
    if node["op"] in ("s_mult", "m_mult", "add") and len(args) >= 2 and args[0]["t"] == "ctx" and args[0]["cache"]:
        return True
    return any(_nontrivial(a) for a in args)


def _expm_ok(r, dims):
    """bound ||argument of expm|| so both evaluators are well conditioned"""
    if isinstance(r, np.ndarray) or r[0] == "ctx":
        return True
    _, op, args = r
    if not all(_expm_ok(a, dims) for a in args):
        return False
    if op == "expm":
        v = ref_eval(args[0], dims)
        return np.linalg.norm(np.atleast_2d(v), 2) <= 3.0
    return True


def run_case(case):
    from photon_weave.extra.expression_interpreter import interpreter

    dims = list(case["dims"])
    if case["kind"] == "malformed":
        b = Built()
        parts = [build(a, b, f"r.{i}") for i, a in enumerate(case["args"])]
        expr = (case["head"], *[p[0] for p in parts])
        try:
            val = libcall(interpreter, expr, b.context, dims)
        except LibRaised:
            return dict(nontrivial=True, key="malformed:" + repr(case["head"]), labels=["malformed-head"])
        raise Violation("unknown-command", f"head {case['head']!r} returned {type(val).__name__} instead of raising",
                        dict(kind="malformed"))
    b = Built()
    expr, ref = build(case["expr"], b)
    labels = ["eval", f"n={case['n']}"]
    if not _expm_ok(ref, dims):
        return dict(nontrivial=False, key=None, labels=["skipped-expm-norm"])
    want = ref_eval(ref, dims)
    if not np.all(np.isfinite(want)) or np.max(np.abs(want), initial=0) > 1e12:
        return dict(nontrivial=False, key=None, labels=["skipped-overflow"])
    dims_before = list(dims)
    try:
        got = libcall(interpreter, expr, b.context, dims)
    except LibRaised as e:
        raise Violation("raised", f"well-formed expression raised: {e}", dict(kind="eval", sig=e.sig()))
    got = np.asarray(got)
    scale = max(1.0, float(np.max(np.abs(want), initial=0)))
    if got.shape != np.asarray(want).shape and not (got.size == 1 and np.asarray(want).size == 1):
        raise Violation("value", f"shape {got.shape} != {np.asarray(want).shape} for {_struct(case['expr'])}", dict(kind="eval", what="shape"))
    if np.max(np.abs(got.reshape(-1) - np.asarray(want).reshape(-1)), initial=0) > 1e-9 * scale:
        raise Violation("value", f"interpreter value differs from reference by {np.max(np.abs(got.reshape(-1) - np.asarray(want).reshape(-1))):.3e} for {_struct(case['expr'])}",
                        dict(kind="eval", what="value"))
    for path, obj, orig in b.owned:
        now = np.asarray(obj)
        if now.shape != orig.shape or now.dtype != orig.dtype or not np.array_equal(now, orig):
            raise Violation("side-effect", f"caller-owned array leaf at {path} was modified by evaluation of {_struct(case['expr'])}",
                            dict(kind="eval", what="leaf"))
    for key, (arr, orig) in b.ctx_cache.items():
        if arr.shape != orig.shape or not np.array_equal(arr, orig):
            raise Violation("side-effect", f"array returned by context entry {key[0]} was modified by evaluation of {_struct(case['expr'])}",
                            dict(kind="eval", what="context"))
    if dims != dims_before:
        raise Violation("side-effect", "dimension list was modified", dict(kind="eval", what="dims"))
    for name, d in b.ctx_calls:
        if d != dims_before:
            raise Violation("context-call", f"context entry {name} was called with {d} instead of the dimension list {dims_before}", dict(kind="eval", what="ctxarg"))
    return dict(nontrivial=_nontrivial(case["expr"]), key=_struct(case["expr"]) + str(dims), labels=labels)
