"""C03 - multi-subsystem operators bind to operands in the order given."""
from hypothesis import strategies as st

from pw_verif import strategies as S
from pw_verif.props._machine import run_program_case, worker_init  # noqa: F401

PROP = "C03"
LEVEL = "exploration"
BUDGET = {"quick": 960, "thorough": 10000}
MIN_PER_SHARD = 10
RULE = (
    "Worlds with 2-3 envelopes (+0-2 custom states) in one composite envelope, layouts as in C01 (operands spread "
    "over own states, combined envelopes and 0-2 composite product spaces in generated internal order, mixed "
    "levels, entangled/mixed states). Programs of 1-3 composite operations: CX, CZ, SWAP, CSWAP on every ordered "
    "tuple of distinct polarizations, beam splitter on ordered Fock pairs (eta in [-4pi,4pi]), user Expression "
    "operators kron(F0,F1[,F2]) with typed operands (Haar unitary per polarization/custom operand, number-diagonal "
    "phase per Fock operand; factors all different). Oracle: joint density matrix after vs the reference embedding "
    "of the textbook operator with factor k on operand k (<= 1e-8). Non-trivial = operands were not already "
    "adjacent-in-call-order in one block, or the pre-state is not a basis state of the operands; distinct = "
    "(operation type, spread, representations, operand storages, layout hash)."
)
from pw_verif.props._machine import HISTORY_NOTE, SURVIVOR_NOTE  # noqa: E402,F401

RULE += HISTORY_NOTE + " A third of the programs apply ONE composite Operation object repeatedly: to the same operands in another order, to other operands of the same kinds, with ladder operations in between that change the Fock operands' sizes."
ASSUMPTIONS = ["reference self-tests passed", "controlled-swap is the textbook Fredkin gate", "beam splitter = exp(i eta (a+b + ab+)); ideal action computed at cut-off n1+n2+1 on both modes",
               "Expression operands: the library sizes a Fock factor as occupation+1, the reference builds the same number-diagonal factor at the dimension the library chose"]


WORLD = dict(min_envs=2, max_envs=3, need_ce=True, fdims=(2, 3), max_joint=400)


@st.composite
def _reuse_case(draw):
    """one composite Operation object applied again: to the same operands in another order, to other operands of
    the same kinds, with ladder operations in between that change the Fock operands' sizes"""
    spec, layout = draw(S.world_and_layout(**WORLD))
    info = S.Info(spec, layout)
    ce = sorted(info.ce_members)[0]
    mem = info.ce_members[ce]
    cs = S.comp_op(info, mem)
    if cs is None:
        return draw(S.program_case(["comp", "op"], max_steps=2, world_kwargs=WORLD))
    c = draw(cs)
    steps = [dict(k="op", entry=ce, targets=c["targets"], op=c["op"])]
    kinds = [info.kind[t] for t in c["targets"]]
    focks = [m for m in mem if info.kind[m] == "fock"]
    for _ in range(draw(st.integers(1, 3))):
        if focks and draw(st.integers(0, 2)) == 0:
            steps.append(dict(k="op", entry="state", targets=[draw(st.sampled_from(focks))], op=dict(type=draw(st.sampled_from(["fock:Creation", "fock:Annihilation"])))))
        if draw(st.booleans()):
            ts = list(draw(st.permutations(c["targets"])))
        else:
            ts, pool = [], list(draw(st.permutations(mem)))
            for k_ in kinds:
                cand = [m for m in pool if info.kind[m] == k_ and m not in ts]
                if not cand:
                    break
                ts.append(cand[0])
            if len(ts) != len(kinds):
                ts = list(c["targets"])
        steps.append(dict(k="op", entry=ce, targets=ts, op=c["op"], reuse=True))
    return dict(spec=spec, layout=layout, contraction=draw(st.booleans()), steps=steps)


def strategy(tier):
    return st.one_of(S.program_case(["comp", "comp", "comp", "op"], max_steps=3, world_kwargs=WORLD),
                     S.program_case(["comp", "comp", "comp", "op"], max_steps=3, world_kwargs=WORLD), _reuse_case())


def run_case(case):
    r = run_program_case(case, PROP, focus_kinds=("op",))
    r["nontrivial"] = any(b.get("state", {}).get("cls") not in (None, "basis") for b in case["layout"])
    return r
