"""C01 - operations act as O x I on exactly the addressed subsystem (all entries, storages, levels)."""
import numpy as np
from hypothesis import strategies as st

from pw_verif import ref
from pw_verif import strategies as S
from pw_verif.engine import PrepFailed, Run
from pw_verif.harness import Violation, case_hash
from pw_verif.snap import Malformed

PROP = "C01"
LEVEL = "exploration"
BUDGET = {"quick": 640, "thorough": 8000}
MIN_PER_SHARD = 10
RULE = (
    "Hypothesis draws a world (1-3 envelopes with Fock cut-offs 2-4, 0-2 custom states of dimension 2-3, "
    "usually one composite envelope), a storage layout (each envelope separate or combined in F(x)P / P(x)F "
    "order; 0-2 composite product spaces over generated member subsets in generated order; every block at "
    "label/vector/matrix level) holding a generated state per block (basis, product, Haar-entangled pure, "
    "mixed, amplitude-cancelling, low-photon entangled), the contraction setting, and 1-3 single-subsystem "
    "operations (every Fock / polarization / custom-state type, angles in [-4pi,4pi], complex |alpha|<=1, "
    "|zeta|<=0.6, Haar unitaries and non-unitary matrices for the renormalising custom types) each issued "
    "through a generated entry point (subsystem, its envelope, its composite envelope). Oracle: the joint "
    "density matrix reconstructed from the object graph after the call must equal (OxI) rho (OxI)^+ of the "
    "one reconstructed before it (re-normalised for the renormalising types), trace distance <= 1e-8 "
    "(5e-3 for displacement/squeezing); rejection is accepted only when the ideal result is the zero "
    "operator. Non-trivial = the target's reduced state before the call is not a basis state; distinct = "
    "(entry, storage kind, representation, block size, operation type, layout hash)."
)
ASSUMPTIONS = [
    "reference model self-tests passed (two independent operator embeddings agree)",
    "states are placed into blocks by assigning correctly shaped arrays after the layout was built through public calls (as the repository's tests do); the call under test is always a public call",
    "user-sized operators (Custom) are given at the target's current public dimension",
    "ideal action of displacement/squeezing computed at cut-off 26+occupation; tolerance 5e-3",
    "joint dimension of a world <= 600 before padding",
]


@st.composite
def _case(draw):
    spec, layout = draw(S.world_and_layout())
    info = S.Info(spec, layout)
    nsteps = draw(st.integers(1, 3))
    steps = []
    for _ in range(nsteps):
        t = draw(st.sampled_from(info.subs))
        kind = info.kind[t]
        entries = ["state"]
        if kind in ("fock", "pol"):
            entries.append("env")
        entries += info.ces_of(t)
        entry = draw(st.sampled_from(entries))
        op = draw(S.op_for_kind(kind))
        steps.append(dict(op=op, entry=entry, target=t))
    return dict(spec=spec, layout=layout, contraction=draw(st.booleans()), steps=steps)


def strategy(tier):
    return _case()


def worker_init():
    ref.selftest()


def run_case(case):
    labels = []
    try:
        run = Run(case["spec"], case["layout"], case["contraction"])
    except PrepFailed as e:
        return dict(nontrivial=False, key=None, labels=["prep-failed:" + type(e.exc).__name__])
    nontrivial = False
    keyparts = []
    for i, step in enumerate(case["steps"]):
        t = step["target"]
        try:
            res = run.check_op(step["op"], step["entry"], [t], PROP)
        except Malformed as m:
            raise Violation("malformed-before-op", m.reason, dict(what=m.what, action="op"))
        site = res["site"]
        pre = res["pre"]
        red = ref.ptrace(pre.rho, pre.dims, [pre.names.index(t)])
        if np.max(np.real(np.diag(red))) < 1 - 1e-9:
            nontrivial = True
        labels.append(f"{site['entry']}/{site['storage']}/{site['rep']}")
        labels.append("op:" + step["op"]["type"])
        labels.append("outcome:" + res["outcome"])
        if i > 0:
            labels.append("second-or-later-op")
        if res["outcome"] in ("rejected", "inconclusive-too-big"):
            break  # what a rejected call leaves behind is C17's subject
        keyparts.append((site["entry"], site["storage"], site["rep"], site["nblock"], step["op"]["type"]))
    labels.append("contraction:" + str(case["contraction"]))
    return dict(nontrivial=nontrivial, key=str(keyparts) + case_hash(case["layout"]), labels=labels)
