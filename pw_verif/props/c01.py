"""C01 - operations act as O x I on exactly the addressed subsystem (all entries, storages, levels)."""
import numpy as np
from hypothesis import strategies as st

from pw_verif import ref
from pw_verif import strategies as S
from pw_verif.engine import PrepFailed, Run
from pw_verif.harness import Violation, case_hash
from pw_verif.snap import Malformed

PROP = "C01"
LEVEL = "exploration"
BUDGET = {"quick": 640, "thorough": 8000}
MIN_PER_SHARD = 10
RULE = (
    "Hypothesis draws a world (1-3 envelopes with Fock cut-offs 2-4, 0-2 custom states of dimension 2-3, "
    "sometimes 1-2 bare Fock/polarization objects without envelope; usually one composite envelope over all or "
    "part of the units, sometimes a second independent one over the rest), a storage layout (each envelope separate or combined in F(x)P / P(x)F "
    "order; 0-3 composite product spaces per composite envelope over generated member subsets in generated order; every block at "
    "label/vector/matrix level) holding a generated state per block (basis, product, Haar-entangled pure, "
    "mixed, nearly pure, amplitude-cancelling, low-photon entangled), the contraction setting, and 1-3 single-subsystem "
    "operations (every Fock / polarization / custom-state type, angles in [-4pi,4pi], complex |alpha|<=1, "
    "|zeta|<=0.6, Haar unitaries and non-unitary matrices for the renormalising custom types) each issued "
    "through a generated entry point (subsystem, its envelope, its composite envelope); in half of the cases the operations come after / between other generated calls (measurements, channels, structural calls, composite operations, resizes, or a prepare-absorb-release-reuse life cycle of one envelope). Oracle: the joint "
    "density matrix reconstructed from the object graph after the call must equal (OxI) rho (OxI)^+ of the "
    "one reconstructed before it (re-normalised for the renormalising types), trace distance <= 1e-8 "
    "(2.5e-3 for displacement/squeezing); rejection is accepted only when the ideal result is the zero "
    "operator. Non-trivial = the target's reduced state before the call is not a basis state; distinct = "
    "(entry, storage kind, representation, block size, operation type, layout hash)."
)
from pw_verif.props._machine import HISTORY_NOTE, SURVIVOR_NOTE  # noqa: E402,F401

RULE += SURVIVOR_NOTE + HISTORY_NOTE
ASSUMPTIONS = [
    "reference model self-tests passed (two independent operator embeddings agree)",
    "states are placed into blocks by assigning correctly shaped arrays after the layout was built through public calls (as the repository's tests do); the call under test is always a public call",
    "user-sized operators (Custom) are given at the target's current public dimension",
    "ideal action of displacement/squeezing computed at cut-off 26+occupation; tolerance 2.5e-3",
    "joint dimension of a world <= 600 before padding",
]


def strategy(tier):
    S.NONUNITARY_FOCK[0] = True   # the statement covers non-unitary user operators through non-renormalising types
    # the operation under test is often preceded by other public calls (the property quantifies over histories)
    hist = ["op", "op", "op", "op", "measure", "kraus", "struct", "comp", "resize"]
    return st.one_of(S.program_case(["op"], max_steps=3), S.program_case(["op"], max_steps=3), S.program_case(hist, max_steps=5, min_steps=2),
                     S.lifecycle_case(tail_kinds=("op", "op", "bigop"), max_tail=3),
                     S.survivor_case(touches=("fockop", "fockop", "op", "op", "resize")))


def worker_init():
    ref.selftest()


def run_case(case):
    from pw_verif.props._machine import run_program_case

    # accept the older case format (steps with "target") of saved regressions
    steps = []
    for st_ in case["steps"]:
        if "k" not in st_:
            st_ = dict(k="op", entry=st_["entry"], targets=[st_["target"]], op=st_["op"])
        steps.append(st_)
    case = dict(case, steps=steps)
    r = run_program_case(case, PROP, focus_kinds=("op",))
    r["nontrivial"] = any(b.get("state", {}).get("cls") not in (None, "basis") for b in case["layout"]) or len(steps) > 1
    return r
