"""C10 - Fock-space truncation never silently loses state."""
import math

from hypothesis import strategies as st

from pw_verif import strategies as S
from pw_verif.props._machine import run_program_case, worker_init  # noqa: F401

PROP = "C10"
LEVEL = "exploration"
BUDGET = {"quick": 960, "thorough": 10000}
MIN_PER_SHARD = 10
RULE = (
    "Worlds/layouts/states as in C01 (Fock modes alone, in combined envelopes and in composite product spaces, "
    "pure/mixed/entangled, support at every level incl. the top one). Domain A: fock.resize(n), "
    "envelope.resize_fock(n), composite.resize_fock(n, fock) for n in 0..7. Oracle A (validity predicate): True => "
    "dimension == n == stored axis length, joint state unchanged (<= 1e-9), no population at or above level n "
    "(> 1e-9 is a violation); False => state and dimension untouched and n was not an enlargement; the reported "
    "dimension always equals the stored array's Fock axis length. Domain B: Displace / Squeeze / Expresion / "
    "ladder / phase operations with complex parameters of any phase on those states; oracle B: differential "
    "against the ideal action computed at cut-off 26+occupation (2.5e-3 for displacement/squeezing, 1e-8 exact "
    "otherwise) - a too small automatically chosen cut-off shows up as a distance. Non-trivial = a resize with n "
    "within +-1 of the highest occupied level, or a displacement/squeezing with both real and imaginary part "
    "non-zero; distinct = (call, entry, storage, representation, direction, edge offset, layout hash)."
)
from pw_verif.props._machine import HISTORY_NOTE, SURVIVOR_NOTE  # noqa: E402,F401

RULE += SURVIVOR_NOTE + HISTORY_NOTE
ASSUMPTIONS = ["reference self-tests passed", "|alpha| <= 1, |zeta| <= 0.6, occupation <= 3 before the call, so the population neglected by the cut-off-26+ reference is < 1e-9",
               "'ideal infinite-dimensional result' is approximated by that reference"]


def strategy(tier):
    from hypothesis import strategies as st

    mix = ["resize", "resize", "resize", "op", "bigop", "bigop", "measure", "struct", "kraus"]
    return st.one_of(S.program_case(mix, max_steps=4), S.program_case(mix, max_steps=4), S.program_case(mix, max_steps=4),
                     S.lifecycle_case(tail_kinds=("resize", "bigop", "resize"), max_tail=3),
                     S.survivor_case(touches=("resize", "resize", "fockop", "measure")))


def run_case(case):
    r = run_program_case(case, PROP, focus_kinds=("resize", "op"))
    for s in case["steps"]:
        if s["k"] == "op" and s["op"]["type"] in ("fock:Displace", "fock:Squeeze"):
            p = list(s["op"].get("params", {}).values())[0]
            if abs(p[0]) > 1e-3 and abs(p[1]) > 1e-3:
                r["nontrivial"] = True
    return r
