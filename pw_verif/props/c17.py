"""C17 - invalid requests are rejected and leave the system unchanged."""
from hypothesis import strategies as st

from pw_verif import strategies as S
from pw_verif.harness import Violation
from pw_verif.props._machine import run_program_case, worker_init  # noqa: F401

PROP = "C17"
LEVEL = "fault_enumeration"
BUDGET = {"quick": 960, "thorough": 10000}
MIN_PER_SHARD = 10
FAULTS = ["kraus_not_tp", "kraus_wrong_size", "povm_wrong_size", "custom_op_wrong_size", "op_wrong_kind", "outside_container",
          "annihilate_vacuum", "annihilate_vacuum", "missing_param", "use_destroyed", "use_destroyed", "shrink"]
RULE = (
    "Fault injection into generated programs: worlds/layouts/states as in C01, a valid prefix of 0-3 steps "
    "(operations, channels, structural calls, often a destructive measurement so that destroyed subsystems "
    "exist), then one invalid request of a generated kind - Kraus set that is not trace preserving (scaled, one "
    "operator dropped, one operator damped), Kraus / POVM / custom operators of the wrong size, operation type "
    "vs subsystem kind mismatch, subsystem from outside the composite envelope (operation, channel, combine), "
    "annihilating an exact vacuum (built-in annihilation, or a custom lowering matrix / projector onto an unoccupied level), shrinking a Fock space to or below its highest occupied level, any use "
    "(operation, channel, measurement, POVM) of a destroyed subsystem, a required parameter missing - issued "
    "through subsystem / envelope / composite entry at the layout the prefix produced, then 1-3 valid steps. "
    "Oracle: the call raises (any exception) or returns False (resize); the joint density matrix reconstructed "
    "from the object graph is unchanged (<= 1e-10), the graph still passes the validity (C07) and bookkeeping "
    "(C13) predicates, and the continuation meets its own oracles. Non-trivial = the fault hit a subsystem in a "
    "shared block or at vector/matrix level; distinct = (fault, mode, entry, storage, representation, layout hash)."
)
from pw_verif.props._machine import HISTORY_NOTE, SURVIVOR_NOTE  # noqa: E402,F401

RULE += HISTORY_NOTE + " One case in eight is a refused construction: an Operation is built and applied, the construction of another one is refused (missing parameter; for multi-subsystem expressions with operand types that differ from every operation built before), and the first object is applied again. Continuation: when a step after the refused request fails the oracle of its own property, the same program is executed without the refused request; if that passes every oracle the refused request is what broke the program (verdict 'continuation-broken-by-rejected-call')."
ASSUMPTIONS = ["reference self-tests passed", "which exception class is raised is not checked", "a vacuum is 'exact' when the reduced state has exactly zero population above level 0",
               "Fock custom operators of another size are valid requests (they resize the space) and are not injected as faults"]


@st.composite
def _refused_construction_case(draw):
    """an Operation is built and applied, the construction of another one is refused (required parameter missing),
    and the first object is applied again"""
    spec, layout = draw(S.world_and_layout(need_ce=True, min_envs=2, max_joint=400))
    info = S.Info(spec, layout)
    mem = info.ce_members.get("ce0", [])
    cs = S.comp_op(info, mem) if len(mem) >= 2 else None
    if cs is not None and draw(st.integers(0, 3)) > 0:
        c = draw(cs)
        first = dict(k="op", entry="ce0", targets=c["targets"], op=c["op"])
    else:
        first = draw(S.step(info, ["op"]))
    inj = dict(k="invalid", fault="missing_param", entry="state", targets=[draw(st.sampled_from(info.subs))], seed=draw(S.seeds), mode=draw(st.sampled_from([6, 7, 6, 7, 0, 2, 4])), nops=2)
    again = dict(first, reuse=True)
    if len(first["targets"]) > 1 and draw(st.booleans()):
        again["targets"] = list(draw(st.permutations(first["targets"])))
    tail = [draw(S.step(info, ["op", "comp", "measure"])) for _ in range(draw(st.integers(0, 2)))]
    return dict(spec=spec, layout=layout, contraction=draw(st.booleans()), steps=[first, inj, again] + tail, inject_at=1)


@st.composite
def _case(draw):
    if draw(st.integers(0, 7)) == 0:
        return draw(_refused_construction_case())
    fault = draw(st.sampled_from(FAULTS))
    spec, layout = draw(S.world_and_layout(partial_ce=(fault == "outside_container"), need_ce=True if fault == "outside_container" else None,
                                           min_envs=2 if fault == "outside_container" else 1))
    info = S.Info(spec, layout)
    prefix = [draw(S.step(info, ["op", "kraus", "struct", "measure_d", "comp"])) for _ in range(draw(st.integers(0, 3)))]
    subs = info.subs
    mem = info.ce_members.get("ce0", [])
    if fault == "shrink":
        focks = [s for s in subs if info.kind[s] == "fock"]
        t = draw(st.sampled_from(focks))
        es = ["state", "env"] + info.ces_of(t)
        inj = dict(k="resize", entry=draw(st.sampled_from(es)), target=t, n=draw(st.integers(0, 3)))
    else:
        n = 1
        if fault in ("kraus_not_tp", "kraus_wrong_size", "povm_wrong_size", "outside_container"):
            n = draw(st.integers(1, 2))
        pool = subs
        if fault == "annihilate_vacuum":
            pool = [s for s in subs if info.kind[s] == "fock"]
        if fault == "custom_op_wrong_size":
            pool = [s for s in subs if info.kind[s] != "fock"]
        ts = list(draw(st.permutations(pool))[:n])
        if fault == "outside_container":
            outside = [s_ for s_ in subs if s_ not in mem]
            if outside:
                ts = [draw(st.sampled_from(outside))] + [t for t in ts if t not in outside][: n - 1]
                ts = list(draw(st.permutations(ts)))
        if fault == "annihilate_vacuum":
            # make the target's block hold the all-zero basis state, so that the mode is an exact vacuum
            t0 = ts[0]
            if t0.startswith("b"):
                spec["bare"][int(t0[1:])]["fock"] = 0       # a Fock space that belongs to no envelope
            else:
                spec["envs"][int(t0[1:].split(".")[0])]["fock"] = 0
            for b in layout:
                if t0 in b["members"]:
                    b["state"]["cls"] = "basis0"
            prefix = [p_ for p_ in prefix if t0 not in p_.get("targets", []) and p_.get("k") not in ("op", "kraus", "measure")]
        if fault == "use_destroyed":
            t0 = ts[0] if info.kind[ts[0]] != "custom" else next(s_ for s_ in subs if info.kind[s_] != "custom")
            ts = [t0]
            prefix.append(dict(k="measure", entry="state", targets=[t0], sep=draw(st.booleans()), destructive=True, script=[draw(st.integers(0, 3))]))
        es = []
        if len(ts) == 1:
            es.append("state")
        envs = {info.env_of(t) for t in ts}
        if len(envs) == 1 and None not in envs:
            es.append("env")
        if mem and (fault == "outside_container" or all(t in mem for t in ts)):
            es += ["ce0", "ce0"]
        if fault == "outside_container":
            es = ["ce0"]
        entry = draw(st.sampled_from(es)) if es else "state"
        if entry == "state":
            ts = ts[:1]
        inj = dict(k="invalid", fault=fault, entry=entry, targets=ts, seed=draw(S.seeds), mode=draw(st.integers(0, 7)), nops=draw(st.integers(2, 3)))
    cont = [draw(S.step(info, ["op", "kraus", "measure", "struct", "comp", "trace_out"])) for _ in range(draw(st.integers(1, 3)))]
    # objects built before the refused request are used again after it
    ops_before = [p_ for p_ in prefix if p_.get("k") == "op"]
    if ops_before and draw(st.booleans()):
        cont.insert(0, dict(draw(st.sampled_from(ops_before)), reuse=True))
    return dict(spec=spec, layout=layout, contraction=draw(st.booleans()), steps=prefix + [inj] + cont, inject_at=len(prefix))


def strategy(tier):
    return _case()


def run_case(case):
    r = run_program_case(case, PROP, focus_kinds=("invalid", "resize"))
    inj = case["steps"][case["inject_at"]]
    at = [int(l.split(":")[1]) for l in r["labels"] if l.startswith("foreign-at:")]
    if at and min(at) > case["inject_at"] and inj.get("k") == "invalid":
        # "... and the program can continue as if the call had not been made": a continuation step failed the
        # oracle of its own property. If the same program without the refused request passes, the refused request
        # is what broke it.
        twin = dict(case, steps=[s_ for i, s_ in enumerate(case["steps"]) if i != case["inject_at"]])
        r2 = run_program_case(twin, PROP, focus_kinds=("invalid", "resize"))
        if not any(l.startswith("foreign-at:") for l in r2["labels"]):
            what = [l for l in r["labels"] if l.startswith(("abandoned-after-foreign", "continued-with-history"))][:1]
            raise Violation("continuation-broken-by-rejected-call",
                            f"after the refused request '{inj.get('fault')}' (step {case['inject_at']}) step {min(at)} {case['steps'][min(at)].get('k')} fails its oracle "
                            f"({what[0] if what else ''}); the same program without the refused request passes every oracle",
                            dict(action="invalid", fault=inj.get("fault"), what="continuation"))
    r["key"] = (r["key"] or "") + str([inj.get("fault", "shrink"), inj.get("mode"), inj.get("entry")])
    return r
