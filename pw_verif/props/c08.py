"""C08 - representation changes are lossless; the contraction setting is physics-neutral."""
import numpy as np
from hypothesis import strategies as st

from pw_verif import ref
from pw_verif import strategies as S
from pw_verif.engine import PrepFailed
from pw_verif.harness import Violation, case_hash
from pw_verif.program import Inapplicable, Machine, Tagged, TooBig
from pw_verif.props._machine import run_program_case, worker_init  # noqa: F401
from pw_verif.sampler import SAMPLER
from pw_verif.snap import Malformed

PROP = "C08"
LEVEL = "exploration"
BUDGET = {"quick": 500, "thorough": 6000}
MIN_PER_SHARD = 10
RULE = (
    "Two generated families. (A) direct: worlds/layouts as in C01 with complex vectors and pure / mixed / "
    "degenerate density matrices in every container (own state, combined envelope, composite product space), "
    "then 1-4 expand()/contract(final) calls at subsystem, envelope and composite level; oracle: joint density "
    "matrix unchanged (<= 1e-9), expand never lowers a level and moves a stand-alone subsystem exactly one level, "
    "contract never raises a level and, when it does not lower it, leaves the stored data bit-identical (a "
    "contract that raises is accepted iff nothing changed). (B) metamorphic twins: one generated program (3-6 "
    "steps over operations, channels, measurements and POVMs with forced branches, structural calls) is executed "
    "three times from the same seed - automatic contraction on, off, and toggled at a generated step; after every "
    "step the three joint density matrices must agree (<= 1e-7) and so must every probability vector handed to "
    "the sampler. Non-trivial = the layout holds a non-basis state (complex phases, entanglement or mixture); "
    "distinct = hash of (family, layout, steps)."
)
RULE += ' (C) one case in ten: a pure state held as a density matrix is taken out of the unit-trace regime by a non-unitary user operator through the non-renormalising Custom type with automatic contraction off, then contracted explicitly or by switching contraction back on; states are compared after normalisation (the ray must not change).'
ASSUMPTIONS = ["reference self-tests passed", "after a displacement/squeezing step the twins may choose different cut-offs, each within the truncation tolerance: they are then compared to 1e-2", "twins share the seed and the forced-outcome scripts, so they follow the same branch whenever their probabilities agree",
               "a twin triple is abandoned (counted) when any twin fails a step for a reason belonging to another property"]


@st.composite
def _unnormalised_case(draw):
    """a pure state held as a density matrix leaves the unit-trace regime (non-unitary user operator through the
    non-renormalising Custom type, automatic contraction off) and is then contracted explicitly / by switching
    automatic contraction back on: 'contracting ... never changes the physical state' (the ray)"""
    spec, layout = draw(S.world_and_layout(max_joint=300))
    info = S.Info(spec, layout)
    focks = [s_ for s_ in info.subs if info.kind[s_] == "fock"]
    t = draw(st.sampled_from(focks))
    env = info.env_of(t)
    steps = []
    for _ in range(draw(st.integers(0, 2))):
        steps.append(dict(k="struct", call="expand", sub=t))
    ces = info.ces_of(t)
    entries = ["state"] + (["env"] if env else []) + list(ces)
    steps.append(dict(k="op", entry=draw(st.sampled_from(entries)), targets=[t], op=dict(type="fock:Custom", useed=draw(S.seeds), unitary=False)))
    for _ in range(draw(st.integers(1, 3))):
        how = draw(st.sampled_from(["contract", "contract", "env_contract", "switch", "expand"]))
        if how == "contract":
            steps.append(dict(k="struct", call="contract", sub=t, final=draw(st.sampled_from([0, 1]))))
        elif how == "expand":
            steps.append(dict(k="struct", call="expand", sub=t))
        elif how == "env_contract" and env:
            steps.append(dict(k="struct", call="env_contract", env=env))
        else:
            steps.append(dict(k="set_contraction", value=True))
            steps.append(dict(k="op", entry=draw(st.sampled_from(entries)), targets=[t], op=dict(type="fock:PhaseShift", params=dict(phi=draw(S.angle)))))
    return dict(spec=spec, layout=layout, contraction=draw(st.sampled_from([False, False, True])), steps=steps, family="direct")


@st.composite
def _case(draw):
    if draw(st.integers(0, 9)) == 0:
        return draw(_unnormalised_case())
    if draw(st.integers(0, 2)) == 0:
        c = draw(S.program_case(["struct_rep"], max_steps=4))
        c["family"] = "direct"
        return c
    c = draw(S.program_case(["op", "op", "comp", "kraus", "measure", "povm", "struct", "bigop"], max_steps=6, min_steps=3,
                            world_kwargs=dict(max_joint=300)))
    c["family"] = "twins"
    c["toggle_at"] = draw(st.integers(0, len(c["steps"])))
    c["seed"] = draw(st.integers(0, 1000))
    return c


def strategy(tier):
    S.NONUNITARY_FOCK[0] = True   # the statement covers non-unitary user operators through non-renormalising types
    return _case()


def _run_twin(case, mode):
    """returns list of per-step (names, dims, rho, plog) or stops at the first failure"""
    contraction = {"on": True, "off": False, "toggle": True}[mode]
    m = Machine(case["spec"], case["layout"], contraction, case.get("seed", 0))
    from pw_verif import program

    program._ScriptForcer.TOTAL = True   # twins must follow one branch whatever keys they consume
    trace = []
    status = "ok"
    from photon_weave.photon_weave import Config

    truncated = set()
    for i, st_ in enumerate(case["steps"]):
        if mode == "toggle" and i == case.get("toggle_at", 0):
            Config().set_contraction(False)
        SAMPLER.reset()
        if st_["k"] in ("op", "resize"):
            # any operation may re-size the Fock spaces it addresses, and the size chosen can differ
            # between twins by numerical noise in the occupation test
            truncated.update(t_ for t_ in (st_.get("targets") or [st_.get("target")]) if t_ and t_.endswith(".f") or (t_ or "").startswith("b"))
        sized = (st_["k"] == "op" and st_["op"]["type"] == "fock:Custom") or st_["k"] in ("kraus", "povm")
        if sized and any(t_ in truncated for t_ in st_.get("targets", [])):
            # a user-sized operator would be built for whatever cut-off this twin happened to choose
            trace.append(("skip", "sized operator after truncating operation"))
            continue
        try:
            m.step(st_)
        except Inapplicable as e:
            trace.append(("skip", str(e)))
            continue
        except TooBig:
            status = "too-big"
            break
        except Tagged as t:
            status = ("known-r5:" if t.site.get("r5_trigger") else "tagged:") + "+".join(t.props) + ":" + t.oracle
            break
        plog = [np.asarray(r["p"], float) / np.sum(r["p"]) for r in SAMPLER.log if r["p"] is not None]
        plog = [p for p in plog if np.max(p) < 1 - 1e-9]  # a point-mass draw is the same as no draw
        s = m.snap()
        trace.append(("ok", s.names, s.dims, s.rho, plog))
    return trace, status, m


def run_case(case):
    if case.get("family") != "twins":
        r = run_program_case(case, PROP, focus_kinds=("struct",))
        r["labels"].append("family:direct")
        r["nontrivial"] = any(b.get("state", {}).get("cls") not in (None, "basis") for b in case["layout"])
        return r
    labels = ["family:twins"]
    try:
        runs = {mode: _run_twin(case, mode) for mode in ("on", "off", "toggle")}
    except PrepFailed as e:
        from pw_verif import program

        program._ScriptForcer.TOTAL = False
        return dict(nontrivial=False, key=None, labels=["prep-failed"])
    except (Malformed, TooBig):
        return dict(nontrivial=False, key=None, labels=["abandoned-malformed"])
    from pw_verif import program

    program._ScriptForcer.TOTAL = False
    statuses = {k: v[1] for k, v in runs.items()}
    n = min(len(v[0]) for v in runs.values())
    base = runs["on"][0]
    compared = 0
    for mode in ("off", "toggle"):
        other = runs[mode][0]
        for i in range(n):
            a, b = base[i], other[i]
            if a[0] != b[0]:
                labels.append("twin-applicability-differs")
                break
            if a[0] == "skip":
                continue
            site = dict(action="twin", mode=mode, step_kind=case["steps"][i]["k"])
            if a[1] != b[1]:
                raise Violation("twin-live-set", f"step {i} ({case['steps'][i]['k']}): live subsystems differ between contraction on and {mode}: {a[1]} vs {b[1]}", site)
            cd = [max(x, y) for x, y in zip(a[2], b[2])]
            td = ref.trace_distance(ref.pad(a[3], a[2], cd), ref.pad(b[3], b[2], cd))
            trunc = any(s_["k"] == "op" and s_["op"]["type"] in ("fock:Displace", "fock:Squeeze") for s_ in case["steps"][: i + 1])
            # nearly pure states: the documented purity tolerance (1e-6) lets the contracting twin replace
            # them by their dominant eigenvector, a move of the order of the deficit (< 1e-5 by construction)
            near = any(b_.get("state", {}).get("cls") == "nearlypure" for b_ in case["layout"]) or any(s_.get("unsharp") is not None for s_ in case["steps"])
            # ... and a later step that renormalises after a non-unitary map (ladder operators, non-unitary
            # user operators, any measurement branch) amplifies that move by 1/(weight of the branch), which
            # has no useful bound: such programs are compared up to the step before
            amplifying = near and any(
                s_["k"] in ("measure", "povm") or (s_["k"] == "kraus" and s_.get("nops", 2) == 1 and not s_.get("unitary", True))
                or (s_["k"] == "op" and (s_["op"]["type"] in ("fock:Annihilation", "fock:Creation") or s_["op"].get("unitary", True) is False))
                for s_ in case["steps"][: i + 1])
            if amplifying and i > 0:
                labels.append("twin-comparison-ends:nearly-pure-state-then-renormalising-step")
                break
            if td > (1e-2 if trunc else (3e-5 if near else 1e-7)):
                raise Violation("twin-state", f"after step {i} ({case['steps'][i]['k']}) the joint state with contraction on and with contraction {mode} differ by {td:.3e}", site)
            if len(a[4]) != len(b[4]):
                raise Violation("twin-draws", f"step {i}: {len(a[4])} random draws with contraction on, {len(b[4])} with {mode}", site)
            for pa, pb in zip(a[4], b[4]):
                if trunc and pa.shape != pb.shape:
                    # twins may have chosen different Fock cut-offs: compare on the common (zero-padded) range
                    n_ = max(len(pa), len(pb))
                    pa, pb = np.pad(pa, (0, n_ - len(pa))), np.pad(pb, (0, n_ - len(pb)))
                if pa.shape != pb.shape or np.max(np.abs(pa - pb)) > (1e-2 if trunc else (3e-5 if near else 1e-7)):
                    raise Violation("twin-probabilities", f"step {i}: measurement distribution {np.round(pa, 6).tolist()} (contraction on) vs {np.round(pb, 6).tolist()} ({mode})", site)
            compared += 1
    for mode, stt in statuses.items():
        if stt != "ok":
            labels.append(f"twin-{mode}-stopped:{stt}")
    # a step that fails its oracle under one setting but not under another is a discrepancy in itself
    stops = {k: (len(v[0]), v[1]) for k, v in runs.items()}
    if len({s for s in stops.values()}) > 1 and any(s[1].startswith("tagged") for s in stops.values()) and any(s[1] == "ok" for s in stops.values()):
        bad = {k: s for k, s in stops.items() if s[1] != "ok"}
        raise Violation("twin-failure-differs", f"the program fails a step oracle only under some contraction settings: {bad}", dict(action="twin", what="failure-differs"))
    labels.append(f"twin-steps-compared:{min(compared, 9)}")
    nontrivial = any(b.get("state", {}).get("cls") not in (None, "basis") for b in case["layout"]) and compared > 0
    return dict(nontrivial=nontrivial, key=case_hash([case["layout"], case["steps"], case.get("toggle_at")]), labels=labels)
