"""C02 - product-space management never changes the physics; partial trace is right."""
from pw_verif import strategies as S
from pw_verif.props._machine import run_program_case, worker_init  # noqa: F401

PROP = "C02"
LEVEL = "exploration"
BUDGET = {"quick": 800, "thorough": 8000}
MIN_PER_SHARD = 10
RULE = (
    "Worlds/layouts/states as in C01 (entangled and mixed blocks at every level). Programs of 1-5 steps drawn "
    "from: Envelope.combine/reorder/expand/contract, CompositeEnvelope.combine/reorder/expand with generated "
    "member subsets and orders (incl. both members of a combined envelope, subsets spanning existing product "
    "spaces), subsystem expand/contract, construction of further composite envelopes (merges), trace_out at the "
    "three entry points with 1-3 kept subsystems in generated order, interleaved with operations. Oracle: after "
    "every structural call the joint density matrix reconstructed from the object graph equals the one before "
    "(<= 1e-9); the value returned by trace_out, read as a state (label -> projector, (d,1) -> ray, (d,d) as is), "
    "equals the reference partial trace in the requested order (<= 1e-8) and trace_out itself leaves the joint "
    "state unchanged. Non-trivial = a trace_out whose true reduced state is mixed (cut through entanglement) was "
    "evaluated, or a structural call acted on a block of >= 2 members; distinct = (call, entry, storage, "
    "representation, block size, spread, layout hash)."
)
from pw_verif.props._machine import HISTORY_NOTE, SURVIVOR_NOTE  # noqa: E402,F401

RULE += SURVIVOR_NOTE + HISTORY_NOTE
ASSUMPTIONS = ["reference self-tests passed", "a returned (d,1) vector is compared as a ray (norm and global phase ignored)",
               "CompositeEnvelope.trace_out is asked only when at least one requested subsystem is stored in one of its product spaces"]


def strategy(tier):
    from hypothesis import strategies as st

    mix = ["struct", "struct", "struct", "trace_out", "trace_out", "op", "comp", "kraus", "measure", "resize"]
    return st.one_of(S.program_case(mix, max_steps=5), S.program_case(mix, max_steps=5), S.program_case(mix, max_steps=5),
                     S.lifecycle_case(tail_kinds=("struct", "trace_out", "resize", "op"), max_tail=2),
                     S.survivor_case(touches=("resize", "fockop", "trace_out", "reorder", "measure"), max_touch=2, finals=("trace_out", "reorder")),
                     S.survivor_case(touches=("resize", "fockop", "multi"), max_touch=2, finals=("trace_out", "reorder", "trace_out")))


def run_case(case):
    r = run_program_case(case, PROP, focus_kinds=("struct", "trace_out"))
    if any(l.startswith("struct:") for l in r["labels"]):
        r["nontrivial"] = r["nontrivial"] or any(b.get("via") != "own" for b in case["layout"])
    return r
