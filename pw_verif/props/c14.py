"""C14 - runs are reproducible from the seed and random draws are never reused."""
import json
import os
import subprocess
import sys

import numpy as np
from hypothesis import strategies as st

from pw_verif import ref
from pw_verif import strategies as S
from pw_verif.engine import PrepFailed
from pw_verif.harness import VERIF_DIR, Violation, case_hash
from pw_verif.program import Inapplicable, Machine, Tagged, TooBig
from pw_verif.props._machine import worker_init  # noqa: F401
from pw_verif.sampler import SAMPLER
from pw_verif.snap import Malformed

PROP = "C14"
LEVEL = "exploration"
BUDGET = {"quick": 400, "thorough": 5000}
MIN_PER_SHARD = 10
FLAKY_IS_VIOLATION = True   # see harness: non-recurrence of an oracle failure is what this property forbids
RULE = (
    "Programs with 2-8 steps, at least half of them projective measurements / POVMs at generated layouts (no "
    "forced outcomes: the library's own sampler decides), plus a generated 'earlier activity' prefix program and "
    "a generated seed. Twins: (a) set_seed(s); run on a fresh world; set_seed(s); run again on a fresh world in "
    "the same process => identical outcome sequences, identical keys handed to the sampler and identical final "
    "joint density matrices (<= 1e-12); (b) prefix program, then set_seed(s) and the program => same as (a); (c, "
    "a slice of the cases) the program in a fresh interpreter process => same outcomes as (a). Invariant: the "
    "keys handed to the sampler within one run are pairwise distinct and none equals the key a re-seed starts "
    "from. Independence proxy (fixed case): over seeds 0..255 two successive measurements of identically prepared "
    "(|0>+|1>)/sqrt2 and |+> states agree in less than 75% of the seeds (fair independent draws exceed that with "
    "probability < 1e-15; a reused key gives 100%). Non-trivial = the run made >= 2 non-deterministic draws; "
    "distinct = hash of (program, seed)."
)
ASSUMPTIONS = ["statistical independence is only approached through key distinctness and the coarse frequency bound", "Config().set_seed is the documented way to seed",
               "steps that fail their own oracle for reasons of other properties end the twin comparison (counted)"]


@st.composite
def _case(draw):
    c = draw(S.program_case(["measure", "measure", "povm", "op", "kraus", "comp"], max_steps=8, min_steps=2, world_kwargs=dict(max_joint=200)))
    for s in c["steps"]:
        if "script" in s:
            s["script"] = []
    pre = draw(S.program_case(["measure", "op", "povm"], max_steps=4, world_kwargs=dict(max_envs=2, max_joint=64)))
    for s in pre["steps"]:
        if "script" in s:
            s["script"] = []
    c["prefix"] = dict(spec=pre["spec"], layout=pre["layout"], steps=pre["steps"])
    c["seed"] = draw(st.integers(0, 2**31 - 1))
    c["subprocess"] = draw(st.integers(0, 15)) == 0
    c["kind"] = "twins"
    return c


def strategy(tier):
    return _case()


def fixed_cases(tier):
    return [dict(kind="independence", nseeds=256)]


def _execute(case, seed, contraction=True):
    """run the program; returns (outcomes list, keys list, final (names, dims, rho), status)"""
    m = Machine(case["spec"], case["layout"], contraction, seed)
    outs, keys, nd = [], [], 0
    status = "ok"
    for st_ in case["steps"]:
        SAMPLER.reset()
        try:
            res = m.step(st_)
        except Inapplicable:
            continue
        except TooBig:
            status = "too-big"
            break
        except Tagged as t:
            status = "tagged:" + "+".join(t.props)
            break
        if isinstance(res, dict) and "outcomes" in res:
            outs.append(sorted(res["outcomes"].items()))
        for r in SAMPLER.log:
            keys.append(tuple(r["key"]))
            outs.append(("draw", r["chosen"]))
            if r["p"] is not None and np.max(r["p"]) < (1 - 1e-9) * np.sum(r["p"]):
                nd += 1
    fin = None
    if status == "ok":
        s = m.snap()
        fin = (s.names, s.dims, s.rho)
    return outs, keys, fin, status, nd


def run_case(case):
    if case["kind"] == "independence":
        return _independence(case)
    seed = int(case["seed"])
    try:
        a = _execute(case, seed)
        b = _execute(case, seed)
        # (b) unrelated earlier activity in the same process, then re-seed
        try:
            _execute(dict(case["prefix"]), seed + 1)
        except (PrepFailed, Malformed, Tagged):
            pass
        c = _execute(case, seed)
    except PrepFailed:
        return dict(nontrivial=False, key=None, labels=["prep-failed"])
    except (Malformed, TooBig):
        return dict(nontrivial=False, key=None, labels=["abandoned-malformed"])
    labels = ["status:" + a[3]]
    site = dict(action="twin")
    for name, other in (("re-run after re-seeding", b), ("run after unrelated earlier activity", c)):
        if a[3] != other[3]:
            raise Violation("status", f"{name}: run stopped with {other[3]} instead of {a[3]}", dict(site, what="status"))
        if a[0] != other[0]:
            raise Violation("outcomes", f"{name}: outcome sequence differs: {a[0][:6]} vs {other[0][:6]}", dict(site, what="outcomes"))
        if a[1] != other[1]:
            raise Violation("keys", f"{name}: keys handed to the sampler differ", dict(site, what="keys"))
        if a[2] is not None:
            if a[2][0] != other[2][0] or a[2][1] != other[2][1] or np.max(np.abs(a[2][2] - other[2][2]), initial=0) > 1e-12:
                raise Violation("final-state", f"{name}: final joint state differs", dict(site, what="state"))
    ks = a[1]
    if len(set(ks)) != len(ks):
        raise Violation("key-reuse", f"a PRNG key was handed to the sampler twice within one run ({len(ks)} draws, {len(set(ks))} distinct keys)", dict(site, what="reuse"))
    import jax

    root = tuple(np.asarray(jax.random.PRNGKey(seed)).tolist())
    if root in ks:
        raise Violation("key-reuse", "the seed's root key itself was used for a draw (a later re-split would repeat it)", dict(site, what="root"))
    if case.get("subprocess") and a[3] == "ok":
        code = ("import sys, json; sys.path.insert(0, %r); from pw_verif.harness import setup_env, setup_jax; setup_env(); setup_jax();"
                "from pw_verif.props import c14; from pw_verif.sampler import SAMPLER; case=json.loads(sys.stdin.read());"
                "r=c14._execute(case, int(case['seed'])); print('RESULT'+json.dumps([r[0], [list(k) for k in r[1]]], default=str))" % VERIF_DIR)
        env = dict(os.environ)
        p = subprocess.run([sys.executable, "-c", code], input=json.dumps(case), capture_output=True, text=True, env=env, timeout=600)
        line = [l for l in p.stdout.splitlines() if l.startswith("RESULT")]
        if not line:
            raise RuntimeError("subprocess twin failed: " + p.stderr[-800:])
        got = json.loads(line[0][6:])
        mine = json.loads(json.dumps([a[0], [list(k) for k in a[1]]], default=str))
        if got != mine:
            raise Violation("fresh-process", "the same program and seed gave different outcomes/keys in a fresh process", dict(site, what="process"))
        labels.append("fresh-process-twin")
    return dict(nontrivial=a[4] >= 2, key=case_hash([case["steps"], case["layout"], seed]), labels=labels + [f"draws:{min(len(ks), 9)}"])


def _independence(case):
    from photon_weave.operation import Operation, PolarizationOperationType
    from photon_weave.photon_weave import Config
    from photon_weave.state.envelope import Envelope
    from pw_verif.world import reset_library_globals
    import jax.numpy as jnp

    SAMPLER.install()
    agree_f = agree_p = 0
    n = int(case["nseeds"])
    for sd in range(n):
        reset_library_globals(sd, True)
        res = []
        for _ in range(2):
            e = Envelope()
            e.fock.dimensions = 2
            e.fock.expand()
            e.fock.state = jnp.array([[1.0], [1.0]]) / jnp.sqrt(2)
            res.append(e.fock.measure(separate_measurement=True)[e.fock])
        agree_f += res[0] == res[1]
        res = []
        for _ in range(2):
            e = Envelope()
            e.polarization.apply_operation(Operation(PolarizationOperationType.H))
            res.append(e.polarization.measure(separate_measurement=True)[e.polarization])
        agree_p += res[0] == res[1]
    for what, ag in (("fock", agree_f), ("polarization", agree_p)):
        if ag > 0.75 * n:
            raise Violation("independence", f"two successive measurements of identically prepared {what} superpositions agreed in {ag}/{n} seeds", dict(action="independence", what=what))
    return dict(nontrivial=True, key="independence", labels=["independence-proxy"])
